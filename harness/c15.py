"""C15 - a node takes effect exactly when all enclosing case clauses are selected."""
import random

from vf.scen import Scenario, run_scenarios
from harness import dipkit

PROPERTY = 'C15'
ENCODED = ['scinumtools.dip.dip:DIP.parse', 'scinumtools.dip.lists.list_branching:BranchingList.false_case', 'scinumtools.dip.lists.list_branching:BranchingList.solve_case',
           'scinumtools.dip.lists.list_branching:BranchingList.prepare_node', 'scinumtools.dip.lists.list_branching:BranchingList._open_branch',
           'scinumtools.dip.lists.list_branching:BranchingList._switch_case', 'scinumtools.dip.lists.list_branching:BranchingList._close_branch',
           'scinumtools.dip.nodes.node_case:CaseNode.parse', 'scinumtools.dip.lists.list_hierarchy:HierarchyList.register']
EXPLANATION = ("DIP programs with nested @case/@else/@end blocks are generated as trees; the truth value of every @case is a solver boolean (the literal true/false written into the "
               "text is chosen by forking on it, so z3 enumerates exactly the feasible truth assignments) and every assigned number is a solver variable. The real DIP.parse runs on "
               "the text; per path the set of parameters must equal {n : every enclosing clause is the selected one} and each value term must equal the last effective assignment. "
               "Blocks are closed by @end, by de-indentation and by the end of the text; misplaced @else/@end must raise.")
ASSUMPTIONS = dipkit.DIP_STUB_TEXT + ["case conditions are the literals true/false (expressions as conditions are C18's subject)"]
OUTSIDE = ['nesting deeper than 3, more than 3 clauses per block', 'properties (!options ...) attached inside clauses', 'case blocks below group nodes (group headers with plain children inside and after clauses are covered)']
BOUNDS = {'quick': '30 curated + 120 generated programs: depth <= 2, <= 3 clauses per block, <= 6 conditions', 'thorough': '900 generated programs, depth <= 3, <= 7 conditions'}
EXHAUSTIVE = {'quick': False, 'thorough': False}
PRE = dipkit.DIP_SRC + '''
def render(O, v, items, level, tv, lines):
    """items -> DIP lines; tv: name -> python bool (truth of each condition on this path)"""
    pad = '  ' * level
    for it in items:
        if it[0] == 'node':
            lines.append(f'{pad}{it[1]} float = {O.lit(getattr(v, it[2]))}')
        elif it[0] == 'mod':
            lines.append(f'{pad}{it[1]} = {O.lit(getattr(v, it[2]))}')
        elif it[0] == 'unit':           # a $unit line and a node that uses the unit
            lines.append(f'{pad}$unit {it[1]} = 2 m')
            lines.append(f'{pad}{it[2]} float = {O.lit(getattr(v, it[3]))} [{it[1]}]')
        elif it[0] == 'ref':            # a node whose value is a reference to / an expression over an earlier node
            lines.append(f'{pad}{it[1]} float = ' + ('{?' + it[2] + '}' if it[3] == 'ref' else '("{?' + it[2] + '} + 1")'))
        elif it[0] == 'group':          # a group header line (no type, no value) with children one level deeper
            lines.append(f'{pad}{it[1]}')
            for child, x in it[2]:
                lines.append(f'{pad}  {child} float = {O.lit(getattr(v, x))}')
        elif it[0] == 'block':
            cp = (it[3] + '.') if len(it) > 3 else ''         # compact name: the clause keywords carry the group, 'a.@case'
            for kind, cond, body in it[1]:
                if kind == 'case':
                    lines.append(f'{pad}{cp}@case {"true" if tv[cond] else "false"}')
                else:
                    lines.append(f'{pad}{cp}@else')
                render(O, v, body, level + 1, tv, lines)
            if it[2] == 'end':
                lines.append(f'{pad}{cp}@end')
def expected(v, items, tv, active, acc, prefix=''):
    """oracle: parameters in order of first effective appearance with the value of the last effective assignment"""
    for it in items:
        if it[0] in ('node', 'mod'):
            if active:
                acc[prefix + it[1]] = getattr(v, it[2])
        elif it[0] == 'unit':
            if active:
                acc[it[2]] = getattr(v, it[3])
        elif it[0] == 'ref':
            if active:
                acc[it[1]] = acc[it[2]] if it[3] == 'ref' else acc[it[2]] + 1
        elif it[0] == 'group':
            if active:
                for child, x in it[2]:
                    acc[it[1] + '.' + child] = getattr(v, x)
        else:
            taken = False
            for kind, cond, body in it[1]:
                sel = (not taken) and (tv[cond] if kind == 'case' else True)
                expected(v, body, tv, active and sel, acc, prefix + ((it[3] + '.') if len(it) > 3 else ''))
                taken = taken or sel
    return acc
def conds(items, out):
    for it in items:
        if it[0] == 'block':
            for kind, cond, body in it[1]:
                if kind == 'case': out.append(cond)
                conds(body, out)
    return out
'''
SRC = '''
def run(v, O):
    tv = {c: bool(getattr(v, c)) for c in conds(v.prog, [])}     # forks: one path per truth assignment
    lines = []
    render(O, v, v.prog, 0, tv, lines)
    text = '\\n'.join(lines)
    env = dip_parse(text)
    data = env.data(Format.TUPLE)
    want = expected(v, v.prog, tv, True, {})
    out = [('parameters are exactly the nodes whose enclosing clauses are all selected', O.same(sorted(data.keys()), sorted(want.keys())))]
    out.append(('order of first appearance', O.same([k for k in data.keys() if k in want], [k for k in want.keys() if k in data])))
    for k, val in want.items():
        if k in data:
            got = data[k][0] if isinstance(data[k], tuple) else data[k]        # nodes with a unit come as (value, unit)
            out.append((f'value of {k} is its last effective assignment', O.eq(got, val)))
    return out
'''
BAD_SRC = '''
def run(v, O):
    return [(f'rejected: {label}', O.raises(lambda t=t: dip_parse(t))) for label, t in v.cases]
'''


class G:
    def __init__(self, rnd, maxdepth, maxcond):
        self.rnd, self.maxdepth, self.maxcond = rnd, maxdepth, maxcond
        self.nn = 0
        self.nv = 0
        self.nc = 0
        self.defined = []

    def val(self):
        self.nv += 1
        return f'x{self.nv}'

    def node(self, active_names):
        if active_names and self.rnd.random() < 0.3:
            return ('mod', self.rnd.choice(active_names), self.val())
        self.nn += 1
        if self.rnd.random() < 0.2:
            return ('group', f'g{self.nn}', [(f'k{j}', self.val()) for j in range(self.rnd.choice([1, 2]))])
        return ('node', f'n{self.nn}', self.val())

    def items(self, depth, outer_names, count=None):
        out = []
        n = count if count is not None else self.rnd.choice([1, 2, 2, 3])
        names = list(outer_names)
        for i in range(n):
            if depth < self.maxdepth and self.nc < self.maxcond and self.rnd.random() < (0.55 if depth == 0 else 0.35):
                out.append(self.block(depth, names))
            else:
                it = self.node(names if depth > 0 or i > 0 else [])
                out.append(it)
                if it[0] == 'node' and depth == 0:
                    names.append(it[1])
        # closing style: a block followed by a block needs @end
        for i, it in enumerate(out):
            if it[0] == 'block':
                nxt = out[i + 1] if i + 1 < len(out) else None
                if nxt is not None and nxt[0] == 'block':
                    out[i] = ('block', it[1], 'end')
        return out

    def block(self, depth, names):
        clauses = []
        k = self.rnd.choice([1, 1, 2, 2, 3])
        for j in range(k):
            if self.nc >= self.maxcond and j > 0:
                break
            self.nc += 1
            clauses.append(('case', f'c{self.nc}', self.items(depth + 1, names, self.rnd.choice([0, 1, 1, 2]) if j else self.rnd.choice([1, 1, 2]))))
        if self.rnd.random() < 0.5:
            clauses.append(('else', None, self.items(depth + 1, names, self.rnd.choice([1, 1, 2]))))
        return ('block', clauses, self.rnd.choice(['end', 'dedent', 'dedent']))


def N(name, x):
    return ('node', name, x)


CURATED = [
    # (label, program)
    ('single true/false case, node after it (closed by de-indentation)', [('block', [('case', 'c1', [N('a', 'x1')])], 'dedent'), N('b', 'x2')]),
    ('case + else, node after (de-indentation)', [('block', [('case', 'c1', [N('a', 'x1')]), ('else', None, [N('a2', 'x2')])], 'dedent'), N('b', 'x3')]),
    ('case closed by @end, node after', [('block', [('case', 'c1', [N('a', 'x1')])], 'end'), N('b', 'x2')]),
    ('node before, case, node after', [N('p', 'x1'), ('block', [('case', 'c1', [N('a', 'x2')]), ('case', 'c2', [N('a3', 'x3')])], 'dedent'), N('b', 'x4')]),
    ('nested case inside a clause', [('block', [('case', 'c1', [N('a', 'x1'), ('block', [('case', 'c2', [N('i', 'x2')])], 'dedent')])], 'dedent'), N('b', 'x3')]),
    ('nested case inside an else', [('block', [('case', 'c1', [N('a', 'x1')]), ('else', None, [('block', [('case', 'c2', [N('i', 'x2')]), ('else', None, [N('j', 'x3')])], 'dedent'), N('t', 'x4')])], 'eof')]),
    ('two consecutive blocks', [('block', [('case', 'c1', [N('a', 'x1')]), ('else', None, [N('a2', 'x2')])], 'end'), ('block', [('case', 'c2', [N('b', 'x3')]), ('else', None, [N('b2', 'x4')])], 'eof')]),
    ('modification of an outer node inside clauses', [N('p', 'x1'), ('block', [('case', 'c1', [('mod', 'p', 'x2')]), ('case', 'c2', [('mod', 'p', 'x3')]), ('else', None, [('mod', 'p', 'x4')])], 'end'), N('q', 'x5')]),
    ('three cases', [('block', [('case', 'c1', [N('a', 'x1')]), ('case', 'c2', [N('b', 'x2')]), ('case', 'c3', [N('c', 'x3')])], 'dedent'), N('d', 'x4')]),
    ('nested two levels, closed by de-indentation twice', [('block', [('case', 'c1', [('block', [('case', 'c2', [N('i', 'x1')])], 'dedent'), N('m', 'x2')])], 'dedent'), N('o', 'x3')]),
    ('nested block followed by de-indent to top', [('block', [('case', 'c1', [N('a', 'x1'), ('block', [('case', 'c2', [N('i', 'x2')]), ('else', None, [N('j', 'x3')])], 'dedent')])], 'dedent'), N('o', 'x4')]),
    ('same name defined in every clause', [('block', [('case', 'c1', [N('a', 'x1')]), ('case', 'c2', [N('a', 'x2')]), ('else', None, [N('a', 'x3')])], 'end'), ('mod', 'a', 'x4')]),
    ('block inside second clause', [('block', [('case', 'c1', [N('a', 'x1')]), ('case', 'c2', [('block', [('case', 'c3', [N('i', 'x2')])], 'end'), N('k', 'x3')])], 'eof')]),
    ('group header with children right after a block closed by de-indentation', [('block', [('case', 'c1', [N('a', 'x1')]), ('else', None, [N('a2', 'x2')])], 'dedent'), ('group', 'grp', [('u', 'x3'), ('w', 'x4')]), N('z', 'x5')]),
    ('group header after a one-clause block closed by de-indentation', [N('p', 'x1'), ('block', [('case', 'c1', [N('h', 'x2')])], 'dedent'), ('group', 'size', [('x', 'x3')])]),
    ('group inside a clause and group closing the nested block', [('block', [('case', 'c1', [('group', 'g', [('u', 'x1')]), ('block', [('case', 'c2', [N('i', 'x2')])], 'dedent'), ('group', 'h', [('w', 'x3')])]), ('else', None, [N('e', 'x4')])], 'dedent'), ('group', 'o', [('q', 'x5')])]),
    ('three blocks deep, closed by @end', [('block', [('case', 'c1', [N('a', 'x1'), ('block', [('case', 'c2', [N('b', 'x2'), ('block', [('case', 'c3', [N('c', 'x3')]), ('else', None, [N('c2', 'x4')])], 'end'), N('b2', 'x5')])], 'end'), N('a2', 'x6')])], 'end'), N('o', 'x7')]),
    ('three blocks deep, closed by de-indentation', [('block', [('case', 'c1', [('block', [('case', 'c2', [('block', [('case', 'c3', [N('c', 'x1')])], 'dedent'), N('b', 'x2')])], 'dedent'), N('a', 'x3')])], 'dedent'), N('o', 'x4')]),
    ('three blocks deep inside an else', [('block', [('case', 'c1', [N('a', 'x1')]), ('else', None, [('block', [('case', 'c2', [('block', [('case', 'c3', [N('c', 'x2')]), ('case', 'c4', [N('d', 'x3')])], 'end')]), ('else', None, [N('e', 'x4')])], 'end')])], 'end'), N('o', 'x5')]),
    ('a reference closes a block by indentation', [N('a', 'x1'), ('block', [('case', 'c1', [N('h', 'x2')])], 'dedent'), ('ref', 'b', 'a', 'ref'), N('z', 'x3')]),
    ('an expression closes a block by indentation', [N('a', 'x1'), ('block', [('case', 'c1', [N('h', 'x2')]), ('case', 'c2', [N('k', 'x3')])], 'dedent'), ('ref', 'b', 'a', 'expr')]),
    ('a reference closes two nested blocks at once', [N('a', 'x1'), ('block', [('case', 'c1', [('block', [('case', 'c2', [N('i', 'x2')])], 'dedent')])], 'dedent'), ('ref', 'b', 'a', 'ref')]),
    ('a reference inside a clause and one closing it', [N('a', 'x1'), ('block', [('case', 'c1', [('ref', 'p', 'a', 'expr')]), ('else', None, [('ref', 'q', 'a', 'ref')])], 'dedent'), ('ref', 'b', 'a', 'expr')]),
    ('a $unit line closes a block by indentation', [('block', [('case', 'c1', [N('h', 'x1')])], 'dedent'), ('unit', 'len', 'w', 'x2'), N('z', 'x3')]),
    ('a $unit line closes a two-clause block by indentation', [('block', [('case', 'c1', [N('h', 'x1')]), ('case', 'c2', [N('k', 'x2')])], 'dedent'), ('unit', 'len', 'w', 'x3')]),
    ('a $unit line inside a clause', [('block', [('case', 'c1', [('unit', 'len', 'w', 'x1')]), ('else', None, [N('e', 'x2')])], 'end'), N('z', 'x3')]),
    ('a reference to a node of the same clause', [('block', [('case', 'c1', [N('h', 'x1'), ('ref', 'p', 'h', 'ref')]), ('else', None, [N('e', 'x2'), ('ref', 'q', 'e', 'expr')])], 'end'), N('z', 'x3')]),
    ('a reference to a node of the same clause, nested', [('block', [('case', 'c1', [('block', [('case', 'c2', [N('i', 'x1'), ('ref', 'r', 'i', 'ref')])], 'dedent'), N('m', 'x2')])], 'dedent'), N('o', 'x3')]),
    ('compact names: blocks of two groups at one indent, closed by the next keyword', [('block', [('case', 'c1', [N('v', 'x1')])], 'dedent', 'a'), ('block', [('case', 'c2', [N('w', 'x2')])], 'dedent', 'b'), N('z', 'x3')]),
    ('compact names: blocks of two groups in descending alphabetical order', [('block', [('case', 'c1', [N('v', 'x1')])], 'dedent', 'b'), ('block', [('case', 'c2', [N('w', 'x2')])], 'dedent', 'a')]),
    ('compact names: case/else of one group, then a block of another group', [('block', [('case', 'c1', [N('v', 'x1')]), ('else', None, [N('v2', 'x2')])], 'dedent', 'a'), ('block', [('case', 'c2', [N('w', 'x3')]), ('case', 'c3', [N('w2', 'x4')])], 'dedent', 'b'), N('z', 'x5')]),
    ('compact names: blocks of two groups inside a clause', [('block', [('case', 'c1', [('block', [('case', 'c2', [N('v', 'x1')])], 'dedent', 'a'), ('block', [('case', 'c3', [N('w', 'x2')])], 'dedent', 'b')]), ('else', None, [N('e', 'x3')])], 'end'), N('z', 'x4')]),
    ('compact names: three groups, the first closed by @end', [('block', [('case', 'c1', [N('v', 'x1')])], 'end', 'a'), ('block', [('case', 'c2', [N('w', 'x2')])], 'dedent', 'c'), ('block', [('case', 'c3', [N('u', 'x3')])], 'dedent', 'b')]),
    ('compact names: chain of one group (documented form)', [('block', [('case', 'c1', [N('v', 'x1')]), ('case', 'c2', [N('v', 'x2')]), ('else', None, [N('v', 'x3')])], 'end', 'plant'), N('z', 'x4')]),
    ('empty-ish: only else selected branch has nodes', [('block', [('case', 'c1', []), ('else', None, [N('e', 'x1')])], 'dedent'), N('o', 'x2')]),
]


def scenarios(tier, seed):
    rnd = random.Random(seed)
    S = []
    progs = list(CURATED)
    n = 120 if tier == 'quick' else 900
    for i in range(n):
        g = G(rnd, 2 if tier == 'quick' else 3, 6 if tier == 'quick' else 7)
        prog = g.items(0, [], rnd.choice([2, 3, 3, 4]))
        if g.nc == 0:
            continue
        progs.append((f'generated {i}', prog))
    ns = {}
    exec(PRE, ns)
    for idx, (label, prog) in enumerate(progs):
        cs = ns['conds'](prog, [])
        xs = sorted({it for it in _vals(prog)})
        inp = {c: 'bool' for c in cs}
        inp.update({x: 'real' for x in xs})
        S.append(Scenario(f'prog/{idx}', SRC, inp, consts={'prog': prog}, preamble=PRE, what=f'{label}: {_brief(prog)}', samples=2))
    bad = [('@else without an open block', 'a float = 1\n@else\n  b float = 2'), ('@end without an open block', 'a float = 1\n@end'), ('@end at the start', '@end\na float = 1'),
           ('@else at the start', '@else\n  a float = 1'), ('@end after a block that was already ended', '@case true\n  a float = 1\n@end\n@end'),
           ('@else after a block that was already ended', '@case true\n  a float = 1\n@end\n@else\n  b float = 2'), ('@else after a block that was already ended, with its own @end', '@case false\n  a float = 1\n@end\n@else\n  b float = 2\n@end'),
           ('second @else in one block', '@case false\n  a float = 1\n@else\n  a float = 2\n@else\n  a float = 3\n@end'), ('second @else in one block (first case true)', '@case true\n  a float = 1\n@else\n  a float = 2\n@else\n  a float = 3\n@end'),
           ('@else after a block closed by indentation', '@case true\n  a float = 1\nb float = 2\n@else\n  c float = 3'),
           ('inner @else after the inner block was ended', '@case true\n  @case true\n    a float = 1\n  @end\n  @else\n    b float = 2\n@end')]
    S.append(Scenario('misplaced', BAD_SRC, {}, consts={'cases': bad}, preamble=PRE, what='misplaced @else/@end', samples=1))
    S.append(Scenario('canary/selection', SRC.replace('sel = (not taken) and (tv[cond] if kind', 'sel = (tv[cond] if kind'), {'c1': 'bool', 'c2': 'bool', 'x1': 'real', 'x2': 'real'},
                      consts={'prog': [('block', [('case', 'c1', [N('a', 'x1')]), ('case', 'c2', [N('b', 'x2')])], 'eof')]}, preamble=PRE.replace('sel = (not taken) and (tv[cond] if kind', 'sel = (tv[cond] if kind'), canary=True))
    return S


def _vals(items):
    for it in items:
        if it[0] in ('node', 'mod'):
            yield it[2]
        elif it[0] == 'unit':
            yield it[3]
        elif it[0] == 'ref':
            pass
        elif it[0] == 'group':
            for child, x in it[2]:
                yield x
        else:
            for kind, cond, body in it[1]:
                yield from _vals(body)


def _brief(items):
    out = []
    for it in items:
        if it[0] in ('node', 'mod'):
            out.append(it[1] + ('=' if it[0] == 'mod' else ''))
        elif it[0] == 'unit':
            out.append('$' + it[1] + ',' + it[2])
        elif it[0] == 'ref':
            out.append(it[1] + '<-' + it[2])
        elif it[0] == 'group':
            out.append(it[1] + '[' + ','.join(c for c, _ in it[2]) + ']')
        else:
            out.append('{' + ' | '.join((c[1] or 'else') + ':' + _brief(c[2]) for c in it[1]) + '}' + it[2][0])
    return ' '.join(out)


NT = 16


def tasks(tier, seed):
    return [{'id': f'c15-{i:02d}', 'tier': tier, 'seed': seed, 'slice': [i, NT]} for i in range(NT)]


def run_task(task):
    S = scenarios(task['tier'], task['seed'])
    i, k = task['slice']
    return run_scenarios(S[i::k], dipkit.dip_patches, timeout_ms=20000, seed=task['seed'], wall_s=900, max_paths=5000)
