"""Character-level reference for the generic expression solver (C01): lexer, classifier of the ill-formed
categories named by the property, and a recursive-descent parser of the stratified grammar.  Works on plain ``str``
(replays, concrete validation) and on ``symx.SymStr`` (every comparison with a free character forks in the engine)."""

CHAR_SRC = r'''
FN_ARITY = {'log10': 1, 'logb': 2, 'log': 1, 'exp': 1, 'sqrt': 1, 'pow': 2, 'sin': 1, 'cos': 1, 'tan': 1}
FN_NAMES = ('log10(', 'logb(', 'log(', 'exp(', 'sqrt(', 'pow(', 'sin(', 'cos(', 'tan(')
OPS = ('**', '==', '!=', '<=', '>=', '&&', '||', '*', '/', '+', '-', '<', '>', '!', '(', ')', ',')
BINARY = ('**', '*', '/', '==', '!=', '<=', '>=', '<', '>', '&&', '||')         # never a sign
class NotInGrammar(Exception):
    pass
def lib_outcome(s, O=None, es=None):
    def go():
        if es is not None:
            return es.solve(s)          # an instance with a history (C02)
        with ExpressionSolver(AtomBase) as fresh:
            return fresh.solve(s)
    if O is not None:
        O.nonfinite_seen(reset=True)
    try:
        r = go()
    except Exception as e:
        if type(e).__name__ in ('NonFiniteLift', 'ZeroDivisionError', 'OverflowError') or 'complex' in str(e) or (O is not None and O.nonfinite_seen()):
            return ('raised', 'domain')                         # inf/nan met a free digit, division by zero, overflow: an error, but no claim about well-formed input
        if isinstance(e, (TypeError, AttributeError, NotImplementedError, IndexError)) and 'Sym' in str(e):
            raise RuntimeError('harness gap: ' + repr(e))      # a proxy reached code that cannot handle it: not a rejection
        return ('raised', type(e).__name__)
    if r is None:
        return ('none', None)
    val = r.value if hasattr(r, 'value') else r                 # an operand-less == hands back a bare bool
    if getattr(val, 'shape', None) == () and hasattr(val, 'item'):
        val = val.item()                                        # NumPy scalars and 0-d object arrays (np.float64 < proxy)
    if isinstance(val, complex):
        return ('nonfinite', None)                              # negative base with a fractional exponent: outside the real-valued claim
    return ('ok', val)
def depth_scan(s):
    """'unbalanced' if a ')' closes nothing or a '(' stays open (character level, blanks and everything else ignored)"""
    depth = 0
    for i in range(len(s)):
        c = s[i:i + 1]
        if c == '(':
            depth += 1
        elif c == ')':
            depth -= 1
            if depth < 0:
                return False
    return depth == 0
def lex(O, s):
    """token list, or None when a character belongs to no token of the documented notation"""
    toks = []
    i, n = 0, len(s)
    while i < n:
        c = s[i:i + 1]
        if c == ' ':
            i += 1
            continue
        hit = None
        for name in FN_NAMES:
            if s[i:i + len(name)] == name:
                hit = ('fn', name[:-1]); i += len(name)
                break
        if hit is None:
            for op in OPS:
                if s[i:i + len(op)] == op:
                    hit = ('op', op); i += len(op)
                    break
        if hit is None:
            j = i
            points = 0
            while j < n:
                cj = s[j:j + 1]
                if O.isdigit(cj):
                    j += 1
                elif cj == '.':
                    points += 1; j += 1
                else:
                    break
            if j == i or points > 1 or j - i == points:
                return None
            hit = ('num', s[i:j]); i = j
        toks.append(hit)
    return toks
def number(O, text):
    val, scale, seen = 0, 1, False
    for j in range(len(text)):
        c = text[j:j + 1]
        if c == '.':
            seen = True
        else:
            val = val * 10 + O.digit(c)
            if seen:
                scale = scale * 10
    return val / scale
def operand_missing(toks):
    """a binary operator (or a sign in binary position at the end) that has no operand on one side"""
    # an empty pair of parentheses holds no operand: the rules below look at the tokens that remain when such pairs are taken out
    # ('1 || ()' lacks an operand; '1 != () + 12' does not - the + is a sign and +12 the operand; what such a text is worth is not claimed)
    toks = list(toks)
    changed = True
    while changed:
        changed = False
        for i in range(len(toks) - 1):
            if toks[i] == ('op', '(') and toks[i + 1] == ('op', ')'):
                del toks[i:i + 2]
                changed = True
                break
    n = len(toks)
    for i, t in enumerate(toks):
        if t[0] != 'op':
            continue
        prev = toks[i - 1] if i > 0 else None
        nxt = toks[i + 1] if i + 1 < n else None
        if t[1] in BINARY:
            if prev is None or prev[0] == 'fn' or (prev[0] == 'op' and prev[1] != ')'):
                return True          # nothing that ends an operand in front of it
        if t[1] in BINARY or t[1] in ('+', '-'):
            if nxt is None or (nxt[0] == 'op' and (nxt[1] in BINARY or nxt[1] in (')', ','))):
                return True          # nothing that starts an operand behind it
    return False
def wrong_arity(toks):
    stack = []
    for t in toks:
        if t[0] == 'fn':
            stack.append([t[1], 0])
        elif t == ('op', '('):
            stack.append([None, 0])
        elif t == ('op', ','):
            if stack:
                stack[-1][1] += 1
        elif t == ('op', ')'):
            if not stack:
                return False
            name, commas = stack.pop()
            if name is not None and commas + 1 != FN_ARITY[name]:
                return True
    return False
def parse(toks):
    pos = [0]
    def peek():
        return toks[pos[0]] if pos[0] < len(toks) else None
    def take():
        pos[0] += 1
        return toks[pos[0] - 1]
    def isop(ops):
        t = peek()
        return t is not None and t[0] == 'op' and t[1] in ops
    def chain(sub, ops):
        a = sub()
        while isop(ops):
            op = take()[1]
            a = ('bin', op, a, sub())
        return a
    def p_or(): return chain(p_and, ('||',))
    def p_and(): return chain(p_not, ('&&',))
    def p_not():
        if isop(('!',)):
            take()
            return ('un', '!', p_cmp())
        return p_cmp()
    def p_cmp(): return chain(p_add, ('==', '!=', '<=', '>=', '<', '>'))
    def p_add(): return chain(p_mul, ('+', '-'))
    def p_mul(): return chain(p_pow, ('*', '/'))
    def p_pow(): return chain(p_sign, ('**',))
    def p_sign():
        if isop(('+', '-')):
            s = take()[1]
            return ('un', s, p_sign())
        return p_prim()
    def p_prim():
        t = peek()
        if t is None:
            raise NotInGrammar()
        if t[0] == 'num':
            take()
            return ('val', t[1])
        if t == ('op', '('):
            take()
            a = p_or()
            if not isop((')',)):
                raise NotInGrammar()
            take()
            return ('par', a)
        if t[0] == 'fn':
            take()
            args = [p_or()]
            while isop((',',)):
                take()
                args.append(p_or())
            if not isop((')',)) or len(args) != FN_ARITY[t[1]]:
                raise NotInGrammar()
            take()
            return ('fn', t[1], args)
        raise NotInGrammar()
    a = p_or()
    if pos[0] != len(toks):
        raise NotInGrammar()
    return a
def bool_in_number_context(t, ctx='any'):
    """the stratified grammar lets a truth value flow into arithmetic only through parentheses; functions of truth values
    and ordered comparisons/arithmetic on them are excluded from the value claim (NumPy/Python coercions, not documented)"""
    k = t[0]
    if k == 'val':
        return False
    if k == 'par':
        return bool_in_number_context(t[1])
    if k == 'un':
        return bool_in_number_context(t[2]) or (t[1] in '+-' and yields_bool(t[2]))
    if k == 'fn':
        return any(bool_in_number_context(a) or yields_bool(a) for a in t[2])
    if k == 'bin':
        if bool_in_number_context(t[2]) or bool_in_number_context(t[3]):
            return True
        if t[1] in ('+', '-', '*', '/', '**', '<', '>', '<=', '>='):
            return yields_bool(t[2]) or yields_bool(t[3])
        return False
    return False
def yields_bool(t):
    k = t[0]
    if k == 'par':
        return yields_bool(t[1])
    if k == 'un':
        return t[1] == '!'
    if k == 'bin':
        return t[1] in ('==', '!=', '<=', '>=', '<', '>') or (t[1] in ('&&', '||') and (yields_bool(t[2]) or yields_bool(t[3])))
    return False
class _FiniteOps:
    """the reference ops with one difference: a non-finite concrete power (0**-x: Python raises, NumPy gives inf) ends the
    evaluation as 'no claim' instead of flowing on as nan -- 1<0**log(.5) is True in NumPy (1<inf) and would be False on nan"""
    def __init__(self, O): self._O = O
    def __getattr__(self, n): return getattr(self._O, n)
    def pow(self, b, e):
        r = self._O.pow(b, e)
        if isinstance(r, float) and (r != r or r in (float('inf'), float('-inf'))):
            raise ZeroDivisionError('non-finite power')
        return r
def evalchar(O, t):
    O = _FiniteOps(O)
    def conv(t):
        k = t[0]
        if k == 'val': return ('lit', number(O, t[1]))
        if k == 'par': return ('par', conv(t[1]))
        if k == 'un': return ('un', t[1], conv(t[2]))
        if k == 'fn': return ('fn', t[1], [conv(a) for a in t[2]])
        return ('bin', t[1], conv(t[2]), conv(t[3]))
    return evalref(O, None, conv(t))
def classify(O, s):
    """('reject', reason) | ('value', tree) | ('none', why)"""
    if not depth_scan(s):
        return ('reject', 'unbalanced parentheses')
    toks = lex(O, s)
    if toks is None:
        return ('none', 'foreign character')
    if wrong_arity(toks):
        return ('reject', 'wrong number of function arguments')
    if operand_missing(toks):
        return ('reject', 'binary operator without an operand')
    try:
        tree = parse(toks)
    except NotInGrammar:
        return ('none', 'outside the stratified grammar')
    if bool_in_number_context(tree):
        return ('none', 'truth value used as a number')
    return ('value', tree)
def char_claims(O, s):
    try:
        return _char_claims(O, s)
    except TypeError as e:
        if type(e).__name__ == 'NonFiniteLift' or 'complex' in str(e):
            return [('no claim: non-finite or complex intermediate value', True)]
        raise
    except (ZeroDivisionError, OverflowError):
        return [('no claim: division by zero or overflow in the reference value', True)]
def _char_claims(O, s):
    cat, what = classify(O, s)
    if cat == 'none':
        return [('no claim: ' + what, True)]
    got = lib_outcome(s, O)
    if cat == 'reject':
        return [(f'ill-formed ({what}) is rejected', O.same(got[0], 'raised'))]
    if cat == 'value':
        if got[0] == 'nonfinite' or got == ('raised', 'domain'):
            return [('no claim: non-finite intermediate value', True)]
        want = evalchar(O, what)
        out = [('well-formed expression is accepted', O.same(got[0], 'ok'))]
        if got[0] == 'ok':
            isb = lambda x: type(x).__name__ in ('bool', 'bool_', 'SymBool')
            out.append(('value follows the documented order', O.veq(got[1], want) if (isb(got[1]) or isb(want)) else O.eq(got[1], want, 1e-9)))
        return out
    return [('no claim: ' + what, True)]
'''
