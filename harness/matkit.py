"""Shared kit for the materials harnesses (C10-C12)."""
import contextlib

from symx import stubs
from harness import unitkit


def _noop_add_expr(self, expr, proportion):
    return None


def mat_stub_entries():
    import scinumtools.materials.substance as SUB
    import scinumtools.materials.material as MAT
    return unitkit.UNITS_STUBS + [
        ('scinumtools.units.magnitude', 'int', stubs.Int),
        ('scinumtools.units.quantity', 'int', stubs.Int),
        ('scinumtools.materials.substance', 'float', stubs.Float),
        ('scinumtools.materials.material', 'float', stubs.Float),
        ('scinumtools.materials.element', 'int', stubs.Int),
        (SUB.Substance, '_add_expr', _noop_add_expr),
        (MAT.Material, '_add_expr', _noop_add_expr),
    ]


@contextlib.contextmanager
def mat_patches():
    with stubs.patched(mat_stub_entries()):
        yield


MAT_STUB_TEXT = unitkit.UNITS_STUB_TEXT + [
    "names `float` in materials.substance/.material and `int` in materials.element, units.magnitude, units.quantity are the symx stubs (sentinel numerals in formula text map to solver variables)",
    "Substance._add_expr / Material._add_expr (they only build the display string self.expr and branch on proportion>1) are replaced by no-ops: formatting is not the subject",
]

# pure-python helpers pasted into scenario preambles and replay scripts
MAT_SRC = r'''
import re as _re
from scinumtools.materials.periodic_table import PT_DATA as _PT
from scinumtools.units.settings import UNIT_STANDARD as _US
_ME_DA = float(_US['[m_e]'].magnitude) / float(_US['Da'].magnitude)
_NUC = {'[p]': ('[m_p]', 1, 0, 0), '[n]': ('[m_n]', 0, 1, 0), '[e]': ('[m_e]', 0, 0, 1)}
def species_data(expr, natural):
    """(mass in Da, Z, N, e) of one species straight from the isotope table"""
    if expr in _NUC:
        u, Z, N, e = _NUC[expr]
        return float(_US[u].magnitude) / float(_US['Da'].magnitude), Z, N, e
    m = _re.match(r'^([A-Za-z]{1,2})(?:\{([0-9]*)([+-][0-9]*)?\})?$', expr)
    el, iso, ion = m.group(1), m.group(2), m.group(3)
    if el == 'D': el, iso = 'H', '2'
    if el == 'T': el, iso = 'H', '3'
    q = 0
    if ion:
        q = int(ion) if len(ion) > 1 else (1 if ion == '+' else -1)
    Z, isotopes = _PT[el]
    if iso:
        M, NA = isotopes[iso]
        A = int(iso)
        return M + q * _ME_DA, Z, A - Z, Z + q
    if natural:
        tot = sum(na for (M, na) in isotopes.values())
        mass = sum((M + q * _ME_DA) * na for (M, na) in isotopes.values()) / tot
        N = sum((int(A) - Z) * na for A, (M, na) in isotopes.items()) / tot
        return mass, Z, N, Z + q
    A, (M, na) = max(isotopes.items(), key=lambda kv: kv[1][1])
    return M + q * _ME_DA, Z, int(A) - Z, Z + q
def render(O, v, nodes, style=0):
    """formula text of a skeleton; counts are literals of v.<name> (sentinels in the symbolic run)"""
    out = []
    for node in nodes:
        kind, body, cnt = node
        lit = O.lit(getattr(v, cnt)) if isinstance(cnt, str) else (str(cnt) if cnt else '')
        if kind == 'sp':
            txt = body + ((' * ' + lit) if (style == 2 and lit) else lit)
        else:
            txt = '(' + render(O, v, body, style) + ')' + lit
        out.append(txt)
    return {0: '', 1: ' ', 2: ' + '}[style].join(out)
def expand(v, nodes, mult=1, acc=None):
    """expected count per species text (a polynomial in the count variables)"""
    acc = {} if acc is None else acc
    for kind, body, cnt in nodes:
        c = getattr(v, cnt) if isinstance(cnt, str) else (cnt if cnt else 1)
        if kind == 'sp':
            acc[body] = acc.get(body, 0) + mult * c
        else:
            expand(v, body, mult * c, acc)
    return acc
'''
