"""C01 - the expression solver evaluates by the documented step table."""
import random
import re

from symx import stubs
from vf.scen import Scenario, run_scenarios
from harness import exprkit, charkit
from symx import symstr

PROPERTY = 'C01'
ENCODED = ['scinumtools.solver.solver:ExpressionSolver.__init__', 'scinumtools.solver.solver:ExpressionSolver.solve', 'scinumtools.solver.tokens:Tokens.operate',
           'scinumtools.solver.expression:Expression', 'scinumtools.solver.atom:AtomBase', 'scinumtools.solver.operators:OperatorAdd.operate_unary',
           'scinumtools.solver.operators:OperatorSub.operate_unary', 'scinumtools.solver.operators:OperatorPar.__init__', 'scinumtools.solver.operators:OperatorNot.operate_unary',
           'scinumtools.solver.operators:OperatorLogb.operate_args', 'scinumtools.solver.expression:Expression.shift', 'scinumtools.solver.expression:Expression.pop_left', 'scinumtools.solver.tokens:Tokens.operate', 'scinumtools.solver.operators:OperatorPowb.operate_args', 'scinumtools.solver.operators:OperatorExp.operate_args']
EXPLANATION = ("Every numeric leaf of an expression skeleton is a solver variable (sentinel numerals in the text, mapped to proxies by the module-local float() of solver.atom); "
               "the real tokeniser, step table and operator classes run unchanged; &&, || and ! call Python truthiness on proxies, which forks, so all truth combinations are paths. "
               "On every path z3 proves the returned value equals the value of a reference evaluator that follows the documented step table (read from docs/source/solver/index.rst "
               "at run time and compared with the evaluator's own table). Blank layouts must give identical terms; single-edit ill-formed variants must raise on every path. "
               "Character level: the expression text itself is symbolic (symx.SymStr: every free position is a solver integer over printable non-letter ASCII); the real Expression/"
               "tokeniser/OperatorPar scanning run on it, each startswith/strip/float() decision forking in the engine, and on every path the outcome is compared with an independent "
               "character-level reference (lexer, classifier of the three ill-formed categories named by the property, recursive-descent parser of the stratified grammar, digit strings "
               "as linear terms of the character codes): all strings up to the length bound, and every single substitution/insertion (and sampled pairs) in rendered well-formed texts.")
ASSUMPTIONS = [
    "name `float` in scinumtools.solver.atom is symx.Float (sentinel numerals map to solver variables); np.log/log10/sqrt/sin/cos/tan reach proxies through __array_ufunc__ as uninterpreted functions",
    "leaves are non-negative reals (a negative literal would render as a unary minus); negative values arise through the unary operator",
    "division assumes a non-zero divisor on that path; log/sqrt of negative values are total uninterpreted functions",
    "reals stand for binary64",
    "character level: names `str` in solver.solver/solver.atom are symx.Str (SymStr counts as str) and `float` in solver.atom is symx.FloatS: float() of a symbolic text is modelled exactly for free characters "
    "that are printable ASCII other than letters and '_' (digits with at most one point, surrounding blanks); free characters are restricted to that alphabet, letters occur only as concrete text (function names)",
    "character level: ill-formed = unbalanced parentheses (character count), a function with the wrong number of top-level arguments, or a binary operator (sign at the end) with no operand-start/operand-end token next to it; "
    "strings outside both the stratified grammar and these categories (foreign characters, '()', '1 2', '!!1', truth values used as numbers) carry no claim",
    "character level: paths on which a concrete sub-expression is non-finite or complex (log of a negative, division by zero) carry no claim",
]
OUTSIDE = ['free characters that are letters or underscore (exponent notation, inf/nan, misspelt function names)', 'free strings longer than 3 (quick) / 4 (thorough) characters; three or more simultaneous edits', '!!a and -!a (outside the stratified grammar)', 'truth values used as numbers: functions, signs and + - * / ** applied directly to a comparison/negation result, e.g. sin(!0), -(a<b), (a<b)+(c<d) (NumPy and Python booleans behave differently there: float16 evaluation, -np.True_ raises, np.True_+np.True_ is True)', 'exponent-notation literals such as 1e-3', 'expressions with more operator occurrences than the bound']
BOUNDS = {'quick': 'all skeletons of the stratified grammar over the full default operator table with <= 2 operator occurrences, 1500 sampled with 3, 300 with 4; 3 blank layouts; ill-formed single edits of 150 skeletons; character level: all strings of <= 3 free characters, one free character substituted/inserted at every position of 30 rendered texts (and all single deletions), 8 double substitutions',
          'thorough': 'all skeletons with <= 3 operator occurrences (32 822), 6000 sampled with 4, 1500 with 5-6 over class representatives; ill-formed single edits of 1500 skeletons; character level: all strings of <= 4 free characters, edits of 200 texts, 60 double substitutions'}
EXHAUSTIVE = {'quick': False, 'thorough': False}
PRE = "from scinumtools.solver import ExpressionSolver, AtomBase\n" + exprkit.EXPR_SRC
SRC = '''
def run(v, O):
    text = render(O, v, v.tree, 0)
    with ExpressionSolver(AtomBase) as es:
        r = es.solve(text)
    want = evalref(O, v, v.tree)
    out = [('value follows the documented order', O.veq(r.value, want))]
    for layout in (1, 2):
        with ExpressionSolver(AtomBase) as es:
            r2 = es.solve(render(O, v, v.tree, layout))
        out.append((f'blank layout {layout} gives the same value', O.veq(r2.value, r.value)))
    return out
'''
BAD_SRC = '''
def run(v, O):
    text = render(O, v, v.tree, v.layout)
    text = apply_edit(text, v.edit)
    def go():
        with ExpressionSolver(AtomBase) as es:
            return es.solve(text)
    return [('ill-formed expression is rejected', O.raises(go))]
def apply_edit(text, edit):
    kind, pos = edit[0], edit[1]
    if kind == 'drop':          # remove the character at pos
        return text[:pos] + text[pos + 1:]
    if kind == 'insert':        # insert text at pos
        return text[:pos] + edit[2] + text[pos:]
    if kind == 'cut':           # remove text[pos:end]
        return text[:pos] + text[edit[2]:]
    raise ValueError(edit)
'''


CHAR_PRE = PRE + charkit.CHAR_SRC
CHAR_SRC = '''
def run(v, O):
    s = O.text([getattr(v, p[1:]) if p.startswith('@') else p for p in v.parts])
    return char_claims(O, s)
'''


def base_strings(rnd, n):
    """well-formed expression texts with concrete small numbers (rendered skeletons of the stratified grammar)"""
    g = exprkit.Gen()
    pool = g.all(1) + g.all(2) + rnd.sample(g.all(3), 400)
    pool = [t for t in pool if not exprkit.fn_of_bool(t)]
    ns = {}
    exec(exprkit.EXPR_SRC, ns)
    nums = ['1', '2', '3', '0', '7', '12', '2.5', '.5', '4.', '10']

    def conc(t):
        k = t[0]
        if k == 'num':
            return ('const', rnd.choice(nums))
        if k == 'bin':
            return ('bin', t[1], conc(t[2]), conc(t[3]))
        if k == 'un':
            return ('un', t[1], conc(t[2]))
        if k == 'par':
            return ('par', conc(t[1]))
        if k == 'fn':
            return ('fn', t[1], [conc(a) for a in t[2]])
        return t
    out = []
    for t in rnd.sample(pool, min(n, len(pool))):
        out.append(ns['render'](None, None, conc(t), rnd.choice([0, 0, 1, 2])))
    return out


def char_scenarios(tier, seed):
    rnd = random.Random(seed + 77)
    S = []
    # (A) every string of printable non-letter ASCII characters up to the length bound
    special = '()*/+-<>=!&|,. '
    cells = [(repr(ch), [f'v.c0 == {ord(ch)}']) for ch in special] + [('digit', ['v.c0 >= 48', 'v.c0 <= 57']),
             ('other', ['z3.And(' + ', '.join(f'v.c0.t != {ord(ch)}' for ch in special) + ', z3.Not(z3.And(v.c0.t >= 48, v.c0.t <= 57)))'])]
    for n in (1, 2, 3) if tier == 'quick' else (1, 2, 3, 4):
        # the first character's class splits the exploration into independent cells (parallel tasks); together they cover every first character
        for cname, cpre in (cells if n >= 3 else [('any', [])]):
            S.append(Scenario(f'chars/free/{n}/{cname}', CHAR_SRC, {f'c{i}': 'char' for i in range(n)}, cpre, consts={'parts': [f'@c{i}' for i in range(n)]}, preamble=CHAR_PRE,
                              what=f'every string of {n} printable non-letter characters (first character: {cname})', samples=20))
    # (B) one free character substituted / inserted at every position of a well-formed text, (C) two free characters
    bases = base_strings(rnd, 30 if tier == 'quick' else 200)
    # parenthesised single operands next to short-circuiting operators: one deletion / one blank leaves an empty pair of parentheses
    bases += ['1 || (0)', '0 && (1)', '(2) == (2)', '1<2 || (3)', 'sin(1 || (0))', 'pow(0 && (1), 2)', '(1)||(0)']
    for bi, text in enumerate(bases):
        for p in range(len(text) + 1):
            if p < len(text):
                S.append(Scenario(f'chars/subst/{bi}@{p}', CHAR_SRC, {'c0': 'char'}, consts={'parts': [text[:p], '@c0', text[p + 1:]]}, preamble=CHAR_PRE,
                                  what=f'any character in place of position {p} of {text!r}', samples=3))
            S.append(Scenario(f'chars/insert/{bi}@{p}', CHAR_SRC, {'c0': 'char'}, consts={'parts': [text[:p], '@c0', text[p:]]}, preamble=CHAR_PRE,
                              what=f'any character inserted at position {p} of {text!r}', samples=3))
        if len(text) >= 2:
            S.append(Scenario(f'chars/delete/{bi}', CHAR_SRC.replace('return char_claims(O, s)', 'out = []\n    for p in range(len(s)):\n        out += [(f"deleted {p}: " + l, c) for l, c in char_claims(O, s[:p] + s[p + 1:])]\n    return out'),
                              {}, consts={'parts': [text]}, preamble=CHAR_PRE, what=f'every single deletion from {text!r}', samples=1))
    for bi, text in enumerate(bases[:8] if tier == 'quick' else bases[:60]):
        if len(text) < 3:
            continue
        p, q = sorted(rnd.sample(range(len(text)), 2))
        S.append(Scenario(f'chars/subst2/{bi}@{p},{q}', CHAR_SRC, {'c0': 'char', 'c1': 'char'}, consts={'parts': [text[:p], '@c0', text[p + 1:q], '@c1', text[q + 1:]]}, preamble=CHAR_PRE,
                          what=f'any two characters in place of positions {p},{q} of {text!r}', samples=3))
    S.append(Scenario('canary/chars', CHAR_SRC.replace('char_claims(O, s)', "[(l, (c if l != 'value follows the documented order' else O.veq(lib_outcome(s)[1], evalchar(O, classify(O, s)[1]) + 1))) for l, c in char_claims(O, s)]"),
                      {'c0': 'char'}, consts={'parts': ['2*', '@c0', '+1']}, preamble=CHAR_PRE, canary=True))
    return S


def char_patches():
    return stubs.patched([('scinumtools.solver.atom', 'float', symstr.FloatS), ('scinumtools.solver.atom', 'str', symstr.Str), ('scinumtools.solver.solver', 'str', symstr.Str)])


def doc_table():
    """operation steps as documented (docs/source/solver/index.rst)"""
    txt = open('/repo/docs/source/solver/index.rst').read()
    m = re.search(r'csv-table:: Operation steps.*?\n\n(.*?)\n\n', txt[txt.index('csv-table:: Operation steps'):], re.S)
    body = txt[txt.index('csv-table:: Operation steps'):]
    rows = re.findall(r'^\s+(parenthesis|unary|binary),\s+"?([a-z0-9, ]+)"?\s*$', body, re.M)
    return [(k, [x.strip() for x in ops.split(',')]) for k, ops in rows]


EXPECTED_DOC = [('parenthesis', ['log', 'log10', 'logb', 'exp', 'sqrt', 'powb', 'sin', 'cos', 'tan', 'par']), ('unary', ['add', 'sub']), ('binary', ['pow']),
                ('binary', ['mul', 'truediv']), ('binary', ['add', 'sub']), ('binary', ['eq', 'ne', 'le', 'ge', 'lt', 'gt']), ('unary', ['not']),
                ('binary', ['and']), ('binary', ['or'])]


def ill_formed_edits(text_parts):
    pass


def scenarios(tier, seed):
    rnd = random.Random(seed)
    g = exprkit.Gen()
    trees = []
    for n in (0, 1, 2):
        trees += g.all(n)
    t3 = g.all(3)
    if tier == 'quick':
        trees += rnd.sample(t3, 1500)
    else:
        trees += t3
    # 4 operators: sampled from the full table by random descent; 5-6: one representative per step
    rep = exprkit.Gen({'bin': ['||', '&&', '<', '==', '+', '-', '*', '/', '**'], 'fn1': ['sqrt'], 'fn2': ['logb'], 'sign': ['-'], 'double_sign': False})
    t4 = rep.all(4)
    trees += rnd.sample(t4, 300 if tier == 'quick' else 6000)
    if tier != 'quick':
        rep2 = exprkit.Gen({'bin': ['&&', '<', '-', '*', '**'], 'fn1': ['sin'], 'fn2': [], 'sign': ['-'], 'double_sign': False, 'par': True})
        t5 = rep2.all(5)
        trees += rnd.sample(t5, min(1500, len(t5)))
    # targeted family: a sign directly after a binary operator, followed by an operator of another step
    X = lambda i: ('num', f'x{i}')
    for B in ['**', '*', '/', '+', '-', '==', '!=', '<=', '>=', '<', '>', '&&', '||']:
        for s in ['-', '+']:
            for H in ['**', '*', '/']:
                if B == '**' or (B in ('*', '/') and H != '**'):
                    continue     # H must belong to a step that is applied before B's step
                trees.append(exprkit.relabel(('bin', B, X(1), ('bin', H, ('un', s, X(2)), X(3)))))
            trees.append(exprkit.relabel(('bin', B, X(1), ('un', s, ('un', '-', X(2))))))
    # targeted family: openers of the same / different kinds nested directly inside each other (depth 3 and 4), alone and inside a larger expression
    def wrap(kind, t):
        return ('par', t) if kind == 'par' else ('fn', kind, [t])
    kinds = ['par', 'sin', 'sqrt']
    for a in kinds:
        for b in kinds:
            for c in kinds:
                inner = ('bin', '+', X(1), X(2))
                trees.append(exprkit.relabel(wrap(a, wrap(b, wrap(c, X(1))))))
                trees.append(exprkit.relabel(('bin', '*', X(1), wrap(a, ('bin', '-', wrap(b, wrap(c, inner)), X(4))))))
    trees.append(exprkit.relabel(wrap('par', wrap('par', wrap('par', wrap('par', X(1)))))))
    trees.append(exprkit.relabel(('fn', 'pow', [wrap('par', wrap('par', X(1))), wrap('par', wrap('par', wrap('par', X(2))))])))
    trees.append(exprkit.relabel(('un', '!', wrap('par', wrap('par', wrap('par', ('bin', '<', X(1), X(2))))))))
    trees = [t for t in trees if not exprkit.fn_of_bool(t)]
    S = []
    for i, t in enumerate(trees):
        names = exprkit.leaves(t)
        S.append(Scenario(f'expr/{i}', SRC, {n: 'real' for n in names}, [f'v.{n} >= 0' for n in names], consts={'tree': t}, preamble=PRE,
                          what=f'skeleton {t}', samples=1))
    # ill-formed single edits
    nbad = 150 if tier == 'quick' else 1500
    pool = [t for t in trees if exprkit.count_ops(t) >= 1]
    for j, t in enumerate(rnd.sample(pool, min(nbad, len(pool)))):
        names = exprkit.leaves(t)
        lay = j % 3
        # render with concrete placeholder leaves to find edit positions (leaf literals are 4-digit sentinels / the edits only touch operator characters)
        class _V:
            pass
        vv = _V()
        for n in names:
            setattr(vv, n, 7)
        class _O:
            def lit(self, x):
                return '9001'     # same width as a sentinel numeral
        ns = {}
        exec(exprkit.EXPR_SRC, ns)
        text = ns['render'](_O(), vv, t, lay)
        edits = []
        closes = [m.start() for m in re.finditer(r'\)', text)]
        opens = [m.start() for m in re.finditer(r'\(', text)]
        for p in closes[:2]:
            edits.append(('drop', p))                               # unbalanced: missing ')'
        for p in closes[-1:]:
            edits.append(('insert', p, ')'))                        # unbalanced: extra ')'
        for p in opens[:1]:
            edits.append(('insert', p + 1, '('))                    # unbalanced: extra '('
        for m in re.finditer(r'(log|log10|exp|sqrt|sin|cos|tan)\(', text):
            edits.append(('insert', m.end(), '3,'))                 # one argument too many
            break
        for m in re.finditer(r'(logb|pow)\([^(),]*,', text):
            edits.append(('cut', m.end() - 1, m.end()))             # the separator removed -> one argument too few
            break
        mb = list(re.finditer(r'(\*\*|\*|/|==|!=|<=|>=|<|>|&&|\|\|)', text))
        if mb:
            m = mb[-1]
            edits.append(('insert', m.end(), m.group(1) if m.group(1) not in ('<', '>', '*') else '/'))   # two binary operators in a row
        edits.append(('insert', len(text), '*'))                    # trailing binary operator
        edits.append(('insert', 0, '*'))                            # leading binary operator
        edits.append(('insert', len(text), '/'))
        for e in edits:
            S.append(Scenario(f'bad/{j}/{e[0]}@{e[1]}', BAD_SRC, {n: 'real' for n in names}, [f'v.{n} >= 1000' for n in names] + [f'v.{n} <= 9999' for n in names],
                              consts={'tree': t, 'layout': lay, 'edit': e}, preamble=PRE, what=f'ill-formed edit {e} of {text}', samples=1))
    S.append(Scenario('canary/value', SRC.replace('O.veq(r.value, want)', 'O.veq(r.value, want + 1)'), {'x1': 'real', 'x2': 'real'}, ['v.x1 >= 0', 'v.x2 >= 0'],
                      consts={'tree': ('bin', '*', ('num', 'x1'), ('num', 'x2'))}, preamble=PRE, canary=True))
    S.append(Scenario('canary/order', SRC, {'x1': 'real', 'x2': 'real', 'x3': 'real'}, ['v.x1 >= 0', 'v.x2 >= 0', 'v.x3 >= 0'],
                      consts={'tree': ('bin', '*', ('bin', '+', ('num', 'x1'), ('num', 'x2')), ('num', 'x3'))}, preamble=PRE, canary=True))
    return S


NT = 64


NCH = 32


def tasks(tier, seed):
    return ([{'id': f'c01-{i:02d}', 'tier': tier, 'seed': seed, 'slice': [i, NT]} for i in range(NT)]
            + [{'id': f'c01-ch-{i:02d}', 'tier': tier, 'seed': seed, 'chars': [i, NCH]} for i in range(NCH)])


def patches():
    return stubs.patched([('scinumtools.solver.atom', 'float', stubs.Float)])


def run_task(task):
    if 'chars' in task:
        S = char_scenarios(task['tier'], task['seed'])
        S.sort(key=lambda sc: (not sc.key.startswith('chars/free/'), sc.key))
        i, k = task['chars']
        # the free-string scenarios are the heavy ones: put each in its own slot, spread the rest
        return run_scenarios(S[i::k], char_patches, timeout_ms=20000, seed=task['seed'], wall_s=3000, max_paths=400000, div_zero='assume')
    S = scenarios(task['tier'], task['seed'])
    i, k = task['slice']
    res = run_scenarios(S[i::k], patches, timeout_ms=20000, seed=task['seed'], wall_s=600, div_zero='assume')
    if i == 0:
        if doc_table() != EXPECTED_DOC:
            res['inconclusive'].append(f"documented step table changed: {doc_table()} (the reference evaluator encodes {EXPECTED_DOC})")
    return res
