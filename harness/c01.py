"""C01 - the expression solver evaluates by the documented step table."""
import random
import re

from symx import stubs
from vf.scen import Scenario, run_scenarios
from harness import exprkit

PROPERTY = 'C01'
ENCODED = ['scinumtools.solver.solver:ExpressionSolver.__init__', 'scinumtools.solver.solver:ExpressionSolver.solve', 'scinumtools.solver.tokens:Tokens.operate',
           'scinumtools.solver.expression:Expression', 'scinumtools.solver.atom:AtomBase', 'scinumtools.solver.operators:OperatorAdd.operate_unary',
           'scinumtools.solver.operators:OperatorSub.operate_unary', 'scinumtools.solver.operators:OperatorPar.__init__', 'scinumtools.solver.operators:OperatorNot.operate_unary',
           'scinumtools.solver.operators:OperatorLogb.operate_args', 'scinumtools.solver.operators:OperatorPowb.operate_args', 'scinumtools.solver.operators:OperatorExp.operate_args']
EXPLANATION = ("Every numeric leaf of an expression skeleton is a solver variable (sentinel numerals in the text, mapped to proxies by the module-local float() of solver.atom); "
               "the real tokeniser, step table and operator classes run unchanged; &&, || and ! call Python truthiness on proxies, which forks, so all truth combinations are paths. "
               "On every path z3 proves the returned value equals the value of a reference evaluator that follows the documented step table (read from docs/source/solver/index.rst "
               "at run time and compared with the evaluator's own table). Blank layouts must give identical terms; single-edit ill-formed variants must raise on every path.")
ASSUMPTIONS = [
    "name `float` in scinumtools.solver.atom is symx.Float (sentinel numerals map to solver variables); np.log/log10/sqrt/sin/cos/tan reach proxies through __array_ufunc__ as uninterpreted functions",
    "leaves are non-negative reals (a negative literal would render as a unary minus); negative values arise through the unary operator",
    "division assumes a non-zero divisor on that path; log/sqrt of negative values are total uninterpreted functions",
    "reals stand for binary64",
]
OUTSIDE = ['!!a and -!a (outside the stratified grammar)', 'log/log10/sqrt/sin/cos/tan/logb applied directly to a truth value such as sin(!0) (NumPy evaluates them in float16)', 'exponent-notation literals such as 1e-3', 'expressions with more operator occurrences than the bound']
BOUNDS = {'quick': 'all skeletons of the stratified grammar over the full default operator table with <= 2 operator occurrences, 1500 sampled with 3, 300 with 4; 3 blank layouts; ill-formed single edits of 150 skeletons',
          'thorough': 'all skeletons with <= 3 operator occurrences (32 822), 6000 sampled with 4, 1500 with 5-6 over class representatives; ill-formed single edits of 1500 skeletons'}
EXHAUSTIVE = {'quick': False, 'thorough': False}
PRE = "from scinumtools.solver import ExpressionSolver, AtomBase\n" + exprkit.EXPR_SRC
SRC = '''
def run(v, O):
    text = render(O, v, v.tree, 0)
    with ExpressionSolver(AtomBase) as es:
        r = es.solve(text)
    want = evalref(O, v, v.tree)
    out = [('value follows the documented order', O.veq(r.value, want))]
    for layout in (1, 2):
        with ExpressionSolver(AtomBase) as es:
            r2 = es.solve(render(O, v, v.tree, layout))
        out.append((f'blank layout {layout} gives the same value', O.veq(r2.value, r.value)))
    return out
'''
BAD_SRC = '''
def run(v, O):
    text = render(O, v, v.tree, v.layout)
    text = apply_edit(text, v.edit)
    def go():
        with ExpressionSolver(AtomBase) as es:
            return es.solve(text)
    return [('ill-formed expression is rejected', O.raises(go))]
def apply_edit(text, edit):
    kind, pos = edit[0], edit[1]
    if kind == 'drop':          # remove the character at pos
        return text[:pos] + text[pos + 1:]
    if kind == 'insert':        # insert text at pos
        return text[:pos] + edit[2] + text[pos:]
    if kind == 'cut':           # remove text[pos:end]
        return text[:pos] + text[edit[2]:]
    raise ValueError(edit)
'''


def doc_table():
    """operation steps as documented (docs/source/solver/index.rst)"""
    txt = open('/repo/docs/source/solver/index.rst').read()
    m = re.search(r'csv-table:: Operation steps.*?\n\n(.*?)\n\n', txt[txt.index('csv-table:: Operation steps'):], re.S)
    body = txt[txt.index('csv-table:: Operation steps'):]
    rows = re.findall(r'^\s+(parenthesis|unary|binary),\s+"?([a-z0-9, ]+)"?\s*$', body, re.M)
    return [(k, [x.strip() for x in ops.split(',')]) for k, ops in rows]


EXPECTED_DOC = [('parenthesis', ['log', 'log10', 'logb', 'exp', 'sqrt', 'powb', 'sin', 'cos', 'tan', 'par']), ('unary', ['add', 'sub']), ('binary', ['pow']),
                ('binary', ['mul', 'truediv']), ('binary', ['add', 'sub']), ('binary', ['eq', 'ne', 'le', 'ge', 'lt', 'gt']), ('unary', ['not']),
                ('binary', ['and']), ('binary', ['or'])]


def ill_formed_edits(text_parts):
    pass


def scenarios(tier, seed):
    rnd = random.Random(seed)
    g = exprkit.Gen()
    trees = []
    for n in (0, 1, 2):
        trees += g.all(n)
    t3 = g.all(3)
    if tier == 'quick':
        trees += rnd.sample(t3, 1500)
    else:
        trees += t3
    # 4 operators: sampled from the full table by random descent; 5-6: one representative per step
    rep = exprkit.Gen({'bin': ['||', '&&', '<', '==', '+', '-', '*', '/', '**'], 'fn1': ['sqrt'], 'fn2': ['logb'], 'sign': ['-'], 'double_sign': False})
    t4 = rep.all(4)
    trees += rnd.sample(t4, 300 if tier == 'quick' else 6000)
    if tier != 'quick':
        rep2 = exprkit.Gen({'bin': ['&&', '<', '-', '*', '**'], 'fn1': ['sin'], 'fn2': [], 'sign': ['-'], 'double_sign': False, 'par': True})
        t5 = rep2.all(5)
        trees += rnd.sample(t5, min(1500, len(t5)))
    # targeted family: a sign directly after a binary operator, followed by an operator of another step
    X = lambda i: ('num', f'x{i}')
    for B in ['**', '*', '/', '+', '-', '==', '!=', '<=', '>=', '<', '>', '&&', '||']:
        for s in ['-', '+']:
            for H in ['**', '*', '/']:
                if B == '**' or (B in ('*', '/') and H != '**'):
                    continue     # H must belong to a step that is applied before B's step
                trees.append(exprkit.relabel(('bin', B, X(1), ('bin', H, ('un', s, X(2)), X(3)))))
            trees.append(exprkit.relabel(('bin', B, X(1), ('un', s, ('un', '-', X(2))))))
    trees = [t for t in trees if not exprkit.fn_of_bool(t)]
    S = []
    for i, t in enumerate(trees):
        names = exprkit.leaves(t)
        S.append(Scenario(f'expr/{i}', SRC, {n: 'real' for n in names}, [f'v.{n} >= 0' for n in names], consts={'tree': t}, preamble=PRE,
                          what=f'skeleton {t}', samples=1))
    # ill-formed single edits
    nbad = 150 if tier == 'quick' else 1500
    pool = [t for t in trees if exprkit.count_ops(t) >= 1]
    for j, t in enumerate(rnd.sample(pool, min(nbad, len(pool)))):
        names = exprkit.leaves(t)
        lay = j % 3
        # render with concrete placeholder leaves to find edit positions (leaf literals are 4-digit sentinels / the edits only touch operator characters)
        class _V:
            pass
        vv = _V()
        for n in names:
            setattr(vv, n, 7)
        class _O:
            def lit(self, x):
                return '9001'     # same width as a sentinel numeral
        ns = {}
        exec(exprkit.EXPR_SRC, ns)
        text = ns['render'](_O(), vv, t, lay)
        edits = []
        closes = [m.start() for m in re.finditer(r'\)', text)]
        opens = [m.start() for m in re.finditer(r'\(', text)]
        for p in closes[:2]:
            edits.append(('drop', p))                               # unbalanced: missing ')'
        for p in closes[-1:]:
            edits.append(('insert', p, ')'))                        # unbalanced: extra ')'
        for p in opens[:1]:
            edits.append(('insert', p + 1, '('))                    # unbalanced: extra '('
        for m in re.finditer(r'(log|log10|exp|sqrt|sin|cos|tan)\(', text):
            edits.append(('insert', m.end(), '3,'))                 # one argument too many
            break
        for m in re.finditer(r'(logb|pow)\([^(),]*,', text):
            edits.append(('cut', m.end() - 1, m.end()))             # the separator removed -> one argument too few
            break
        mb = list(re.finditer(r'(\*\*|\*|/|==|!=|<=|>=|<|>|&&|\|\|)', text))
        if mb:
            m = mb[-1]
            edits.append(('insert', m.end(), m.group(1) if m.group(1) not in ('<', '>', '*') else '/'))   # two binary operators in a row
        edits.append(('insert', len(text), '*'))                    # trailing binary operator
        edits.append(('insert', 0, '*'))                            # leading binary operator
        edits.append(('insert', len(text), '/'))
        for e in edits:
            S.append(Scenario(f'bad/{j}/{e[0]}@{e[1]}', BAD_SRC, {n: 'real' for n in names}, [f'v.{n} >= 1000' for n in names] + [f'v.{n} <= 9999' for n in names],
                              consts={'tree': t, 'layout': lay, 'edit': e}, preamble=PRE, what=f'ill-formed edit {e} of {text}', samples=1))
    S.append(Scenario('canary/value', SRC.replace('O.veq(r.value, want)', 'O.veq(r.value, want + 1)'), {'x1': 'real', 'x2': 'real'}, ['v.x1 >= 0', 'v.x2 >= 0'],
                      consts={'tree': ('bin', '*', ('num', 'x1'), ('num', 'x2'))}, preamble=PRE, canary=True))
    S.append(Scenario('canary/order', SRC, {'x1': 'real', 'x2': 'real', 'x3': 'real'}, ['v.x1 >= 0', 'v.x2 >= 0', 'v.x3 >= 0'],
                      consts={'tree': ('bin', '*', ('bin', '+', ('num', 'x1'), ('num', 'x2')), ('num', 'x3'))}, preamble=PRE, canary=True))
    return S


NT = 64


def tasks(tier, seed):
    return [{'id': f'c01-{i:02d}', 'tier': tier, 'seed': seed, 'slice': [i, NT]} for i in range(NT)]


def patches():
    return stubs.patched([('scinumtools.solver.atom', 'float', stubs.Float)])


def run_task(task):
    S = scenarios(task['tier'], task['seed'])
    i, k = task['slice']
    res = run_scenarios(S[i::k], patches, timeout_ms=20000, seed=task['seed'], wall_s=600, div_zero='assume')
    if i == 0:
        if doc_table() != EXPECTED_DOC:
            res['inconclusive'].append(f"documented step table changed: {doc_table()} (the reference evaluator encodes {EXPECTED_DOC})")
    return res
