"""C11 - number and mass fractions are normalised and mutually consistent."""
import itertools
import random

from vf.scen import Scenario, run_scenarios
from harness import matkit

PROPERTY = 'C11'
ENCODED = ['scinumtools.materials.material:Material.__add__', 'scinumtools.materials.material:Material.__rmul__', 'scinumtools.materials.composite:Composite._add', 'scinumtools.materials.composite:Composite._multiply', 'scinumtools.materials.material_solver:MaterialSolver.preprocess', 'scinumtools.materials.composite:Composite._norm', 'scinumtools.materials.composite:Composite._data', 'scinumtools.materials.composite:Composite.add',
           'scinumtools.materials.material:Material.__init__', 'scinumtools.materials.material:Material.data_composite',
           'scinumtools.materials.substance:Substance.data_composite', 'scinumtools.materials.substance:Substance.__init__']
EXPLANATION = ("Proportions n_i > 0 and the common scale c > 0 are solver variables; the real Material/Substance constructors, Composite._norm and _data run on proxies "
               "(np.sum over object lists, Quantity division). z3 proves sum x = 100, sum X = 100, x_i n_j = x_j n_i, X_i n_j m_j = X_j n_i m_i with m_i the component mass, "
               "invariance under n -> c n, and that a material rebuilt from the symbolic mass fractions reports the same x and X.")
ASSUMPTIONS = matkit.MAT_STUB_TEXT + [
    "a division by a term that may be zero forks; on the zero side the library's own ZeroDivisionError propagates and is reported (no denominator is assumed away)",
    "proportions are positive reals",
    "component masses m_i are read back from the built object for the proportionality identity and separately compared (1e-9) with the isotope-table oracle",
    "tolerance claims (1e-9 relative) are posed as two abs-free polynomial queries; rational terms are cleared by z3",
]
OUTSIDE = ['more than 4 components (5 thorough)', 'binary64 rounding']
BOUNDS = {'quick': '1..3 components drawn from 12 substances, 3 norm types, natural/most abundant', 'thorough': '1..4 components (duality 3), all norm types'}
EXHAUSTIVE = {'quick': False, 'thorough': False}
PRE = "from scinumtools.materials import Material, Substance, Norm\n" + matkit.MAT_SRC + '''
NORMS = {'NUMBER_FRACTION': Norm.NUMBER_FRACTION, 'NUMBER': Norm.NUMBER, 'MASS_FRACTION': Norm.MASS_FRACTION}
def sub_mass(formula, natural):
    """oracle mass of one formula unit in Da from the isotope table (formulas here are flat: species + integer count)"""
    tot = 0.0
    for sp, cnt in _re.findall(r'([A-Z][a-z]?(?:\\{[0-9+-]+\\})?)([0-9]*)', formula):
        tot += species_data(sp, natural)[0] * (int(cnt) if cnt else 1)
    return tot
'''
PRE += '''
def check_fractions(O, out, tag, m, subs, ns, norm, natural):
    d = m.data_composite(quantity=False)
    ms = [m.components[s].component_mass.value('Da') for s in subs]
    out.append((f'{tag}: component set', O.same(sorted(m.components.keys()), sorted(subs))))
    for s, mi in zip(subs, ms):
        out.append((f'{tag}: component mass of {s}', O.eq(mi, sub_mass(s, natural), 1e-9)))
    xs = [d[s].x for s in subs]; Xs = [d[s].X for s in subs]
    out.append((f'{tag}: sum x = 100', O.eq(d['sum'].x, 100, 1e-9)))
    out.append((f'{tag}: sum X = 100', O.eq(d['sum'].X, 100, 1e-9)))
    for i in range(len(ns)):
        for j in range(i + 1, len(ns)):
            if norm == 'MASS_FRACTION':
                out.append((f'{tag}: X[{i}]:X[{j}] = w{i}:w{j}', O.close(Xs[i] * ns[j], Xs[j] * ns[i])))
                out.append((f'{tag}: x[{i}]:x[{j}] = w/m', O.close(xs[i] * ns[j] * ms[i], xs[j] * ns[i] * ms[j])))
            else:
                out.append((f'{tag}: x[{i}]:x[{j}] = n{i}:n{j}', O.close(xs[i] * ns[j], xs[j] * ns[i])))
                out.append((f'{tag}: X[{i}]:X[{j}] = nm', O.close(Xs[i] * ns[j] * ms[j], Xs[j] * ns[i] * ms[i])))
    return xs, Xs
'''
API_SRC = '''
def run(v, O):
    out = []
    a, b, c = v.subs
    nt = NORMS[v.norm]
    # built step by step, the last add() tops up a component that is already there
    m = Material(natural=v.natural, norm_type=nt)
    m.add(a, v.n1); m.add(b, v.n2); m.add(a, v.n3)
    check_fractions(O, out, 'add() sequence', m, [a, b], [v.n1 + v.n3, v.n2], v.norm, v.natural)
    # sum of two materials sharing a component
    m1 = Material({a: v.n1, b: v.n2}, natural=v.natural, norm_type=nt)
    m2 = Material({c: v.n3, a: v.n4}, natural=v.natural, norm_type=nt)
    s = m1 + m2
    check_fractions(O, out, 'm1 + m2', s, [a, b, c], [v.n1 + v.n4, v.n2, v.n3], v.norm, v.natural)
    # scaling with the operator
    xs1, Xs1 = check_fractions(O, out, 'm1', m1, [a, b], [v.n1, v.n2], v.norm, v.natural)
    k = v.c * m1
    xs2, Xs2 = check_fractions(O, out, 'c * m1', k, [a, b], [v.c * v.n1, v.c * v.n2], v.norm, v.natural)
    for i in (0, 1):
        out.append((f'c * m1: x[{i}] unchanged', O.close(xs2[i], xs1[i])))
        out.append((f'c * m1: X[{i}] unchanged', O.close(Xs2[i], Xs1[i])))
    # the same mixture written as an expression string
    t = Material(f'{O.lit(v.n1)} <{a}> {O.lit(v.n2)} <{b}>', natural=v.natural, norm_type=nt)
    xs3, Xs3 = check_fractions(O, out, 'string form', t, [a, b], [v.n1, v.n2], v.norm, v.natural)
    for i in (0, 1):
        out.append((f'string form: x[{i}] = dict form', O.close(xs3[i], xs1[i])))
        out.append((f'string form: X[{i}] = dict form', O.close(Xs3[i], Xs1[i])))
    return out
'''
SUBAPI_SRC = '''
def run(v, O):
    out = []
    s = Substance(v.formula, natural=v.natural)
    s.add(v.extra, v.n1)
    d = s.data_composite(quantity=False)
    out.append(('substance.add: sum x = 100', O.eq(d['sum'].x, 100, 1e-9)))
    out.append(('substance.add: sum X = 100', O.eq(d['sum'].X, 100, 1e-9)))
    t = Substance(v.formula, natural=v.natural) + Substance(v.formula2, natural=v.natural)
    d = t.data_composite(quantity=False)
    out.append(('substance + substance: sum x = 100', O.eq(d['sum'].x, 100, 1e-9)))
    out.append(('substance + substance: sum X = 100', O.eq(d['sum'].X, 100, 1e-9)))
    u = Substance(v.formula, natural=v.natural) * v.n1
    d = u.data_composite(quantity=False)
    out.append(('substance * k: sum x = 100', O.eq(d['sum'].x, 100, 1e-9)))
    out.append(('substance * k: sum X = 100', O.eq(d['sum'].X, 100, 1e-9)))
    return out
'''
MAT_SRC = '''
def run(v, O):
    ns = [getattr(v, f'n{i + 1}') for i in range(len(v.subs))]
    m = Material({s: n for s, n in zip(v.subs, ns)}, natural=v.natural, norm_type=NORMS[v.norm])
    d = m.data_composite(quantity=False)
    ms = [m.components[s].component_mass.value('Da') for s in v.subs]
    out = []
    for s, mi in zip(v.subs, ms):
        out.append((f'component mass of {s}', O.eq(mi, sub_mass(s, v.natural), 1e-9)))
    xs = [d[s].x for s in v.subs]; Xs = [d[s].X for s in v.subs]
    out.append(('sum x = 100', O.eq(d['sum'].x, 100, 1e-9)))
    out.append(('sum X = 100', O.eq(d['sum'].X, 100, 1e-9)))
    out.append(('x rows add up to 100', O.eq(sum(xs), 100, 1e-9)))
    out.append(('X rows add up to 100', O.eq(sum(Xs), 100, 1e-9)))
    k = len(ns)
    for i in range(k):
        out.append((f'x[{i}] > 0', O.gt(xs[i], 0)))
        for j in range(i + 1, k):
            if v.norm == 'MASS_FRACTION':   # given proportions are mass amounts w_i: X ~ w, x ~ w/m
                out.append((f'X[{i}]:X[{j}] = w{i}:w{j}', O.close(Xs[i] * ns[j], Xs[j] * ns[i])))
                out.append((f'x[{i}]:x[{j}] = w{i}/m{i}:w{j}/m{j}', O.close(xs[i] * ns[j] * ms[i], xs[j] * ns[i] * ms[j])))
            else:
                out.append((f'x[{i}]:x[{j}] = n{i}:n{j}', O.close(xs[i] * ns[j], xs[j] * ns[i])))
                out.append((f'X[{i}]:X[{j}] = n{i}m{i}:n{j}m{j}', O.close(Xs[i] * ns[j] * ms[j], Xs[j] * ns[i] * ms[i])))
    # common scaling of the proportions changes nothing
    m2 = Material({s: v.c * n for s, n in zip(v.subs, ns)}, natural=v.natural, norm_type=NORMS[v.norm])
    d2 = m2.data_composite(quantity=False)
    for i, s in enumerate(v.subs):
        out.append((f'scaling: x[{i}]', O.close(d2[s].x, xs[i])))
        out.append((f'scaling: X[{i}]', O.close(d2[s].X, Xs[i])))
    return out
'''
DUAL_SRC = '''
def run(v, O):
    ns = [getattr(v, f'n{i + 1}') for i in range(len(v.subs))]
    m1 = Material({s: n for s, n in zip(v.subs, ns)}, natural=v.natural, norm_type=Norm.NUMBER_FRACTION)
    d1 = m1.data_composite(quantity=False)
    m2 = Material({s: d1[s].X for s in v.subs}, natural=v.natural, norm_type=Norm.MASS_FRACTION)
    d2 = m2.data_composite(quantity=False)
    out = []
    for i, s in enumerate(v.subs):
        out.append((f'duality: x[{i}]', O.close(d2[s].x, d1[s].x)))
        out.append((f'duality: X[{i}]', O.close(d2[s].X, d1[s].X)))
    m3 = Material({s: d2[s].x for s in v.subs}, natural=v.natural, norm_type=Norm.NUMBER_FRACTION)
    d3 = m3.data_composite(quantity=False)
    for i, s in enumerate(v.subs):
        out.append((f'duality back: X[{i}]', O.close(d3[s].X, d1[s].X)))
    return out
'''
SUBST_SRC = '''
def run(v, O):
    s = Substance({sp: n for sp, n in zip(v.species, [v.n1, v.n2, v.n3][:len(v.species)])}, natural=v.natural)
    ns = [v.n1, v.n2, v.n3][:len(v.species)]
    d = s.data_composite(quantity=False)
    ms = [species_data(sp, v.natural)[0] for sp in v.species]
    xs = [d[sp].x for sp in v.species]; Xs = [d[sp].X for sp in v.species]
    out = [('sum x = 100', O.eq(d['sum'].x, 100, 1e-9)), ('sum X = 100', O.eq(d['sum'].X, 100, 1e-9))]
    for i in range(len(ns)):
        for j in range(i + 1, len(ns)):
            out.append((f'x[{i}]:x[{j}]', O.close(xs[i] * ns[j], xs[j] * ns[i])))
            out.append((f'X[{i}]:X[{j}]', O.close(Xs[i] * ns[j] * ms[j], Xs[j] * ns[i] * ms[i], 1e-8)))
    return out
'''
SUBS = ['H2O', 'CO2', 'NaCl', 'CH4', 'O2', 'N2', 'Ar', 'C2H6O', 'Fe2O3', 'SiO2', 'He', 'C{13}O2']


def scenarios(tier, seed):
    rnd = random.Random(seed)
    S = []
    sizes = (1, 2, 3) if tier == 'quick' else (1, 2, 3, 4)
    reps = 2 if tier == 'quick' else 5
    for k in sizes:
        for norm in ('NUMBER_FRACTION', 'NUMBER', 'MASS_FRACTION'):
            for r in range(reps):
                subs = rnd.sample(SUBS, k)
                natural = (r % 2 == 0)
                inp = {f'n{i + 1}': 'real' for i in range(k)}
                inp['c'] = 'real'
                pre = [f'v.n{i + 1} > 0' for i in range(k)] + ['v.c > 0']
                S.append(Scenario(f'material/{norm}/{k}/{r}', MAT_SRC, inp, pre, consts={'subs': subs, 'norm': norm, 'natural': natural}, preamble=PRE,
                                  what=f'{norm} material of {subs}', samples=1))
    for k in ((2, 3) if tier == 'quick' else (2, 3)):
        for r in range(2 if tier == 'quick' else 4):
            subs = rnd.sample(SUBS, k)
            inp = {f'n{i + 1}': 'real' for i in range(k)}
            S.append(Scenario(f'duality/{k}/{r}', DUAL_SRC, inp, [f'v.n{i + 1} > 0' for i in range(k)], consts={'subs': subs, 'natural': r % 2 == 0}, preamble=PRE,
                              what=f'number fractions -> mass fractions -> back for {subs}', samples=1))
    for r in range(4 if tier == 'quick' else 10):
        sp = rnd.sample(['H', 'O', 'C', 'Fe', 'U{238}', 'Cl', 'Na{+}', 'D', '[p]', 'Ca{42}', 'N', 'Si'], 3 if r % 2 else 2)
        S.append(Scenario(f'substance/{r}', SUBST_SRC, {'n1': 'real', 'n2': 'real', 'n3': 'real'}, ['v.n1 > 0', 'v.n2 > 0', 'v.n3 > 0'],
                          consts={'species': sp, 'natural': r % 3 != 0}, preamble=PRE, what=f'substance of {sp}', samples=1))
    for r, norm in enumerate(['NUMBER_FRACTION', 'NUMBER', 'MASS_FRACTION'] * (1 if tier == 'quick' else 3)):
        subs = rnd.sample(SUBS, 3)
        S.append(Scenario(f'api/{norm}/{r}', API_SRC, {'n1': 'count', 'n2': 'count', 'n3': 'count', 'n4': 'count', 'c': 'count'},
                          consts={'subs': subs, 'norm': norm, 'natural': r % 2 == 1}, preamble=PRE, what=f'add()/+/c*/string forms of a {norm} material of {subs}', samples=1))
    for r, (f1, ex, f2) in enumerate([('H2O', 'O', 'H2'), ('CH3', 'H', 'COOH'), ('NaCl', 'Na', 'Cl2')]):
        S.append(Scenario(f'subapi/{r}', SUBAPI_SRC, {'n1': 'count'}, consts={'formula': f1, 'extra': ex, 'formula2': f2, 'natural': r % 2 == 0}, preamble=PRE,
                          what=f'Substance.add / + / * on {f1}', samples=1))
    S.append(Scenario('canary/sum', MAT_SRC.replace("O.eq(d['sum'].x, 100, 1e-9)", "O.eq(d['sum'].x, 100.001, 1e-9)"), {'n1': 'real', 'n2': 'real', 'c': 'real'},
                      ['v.n1 > 0', 'v.n2 > 0', 'v.c > 0'], consts={'subs': ['H2O', 'CO2'], 'norm': 'NUMBER_FRACTION', 'natural': True}, preamble=PRE, canary=True))
    S.append(Scenario('canary/prop', MAT_SRC.replace("O.close(xs[i] * ns[j], xs[j] * ns[i])", "O.close(xs[i] * ns[j], 1.001 * xs[j] * ns[i])"), {'n1': 'real', 'n2': 'real', 'c': 'real'},
                      ['v.n1 > 0', 'v.n2 > 0', 'v.c > 0'], consts={'subs': ['H2O', 'CO2'], 'norm': 'NUMBER', 'natural': True}, preamble=PRE, canary=True))
    return S


NT = 16


def tasks(tier, seed):
    return [{'id': f'c11-{i:02d}', 'tier': tier, 'seed': seed, 'slice': [i, NT]} for i in range(NT)]


def run_task(task):
    S = scenarios(task['tier'], task['seed'])
    i, k = task['slice']
    return run_scenarios(S[i::k], matkit.mat_patches, timeout_ms=30000, seed=task['seed'], wall_s=300, div_zero='fork')
