"""C10 - a molecular formula is decomposed into exactly its atoms."""
import random

from vf.scen import Scenario, run_scenarios
from harness import matkit

PROPERTY = 'C10'
ENCODED = ['scinumtools.materials.substance_solver:SubstanceSolver.preprocess', 'scinumtools.materials.substance_solver:SubstanceSolver.solve',
           'scinumtools.materials.substance:Substance.atom', 'scinumtools.materials.substance:Substance.__init__', 'scinumtools.materials.substance:Substance.__add__',
           'scinumtools.materials.substance:Substance.__mul__', 'scinumtools.materials.substance:Substance.data_components', 'scinumtools.materials.substance:Substance.data_composite',
           'scinumtools.materials.composite:Composite.add', 'scinumtools.materials.composite:Composite._add', 'scinumtools.materials.composite:Composite._multiply',
           'scinumtools.materials.composite:Composite._norm', 'scinumtools.materials.composite:Composite._data', 'scinumtools.materials.element:Element.__init__',
           'scinumtools.materials.element:Element.get_isotope', 'scinumtools.materials.element:Element.get_natural', 'scinumtools.materials.element:Element.get_abundant',
           'scinumtools.solver.solver:ExpressionSolver.solve', 'scinumtools.solver.tokens:Tokens.operate']
EXPLANATION = ("Every count and group multiplier of a formula skeleton is a solver variable: the formula text carries sentinel numerals that the module-local float() maps to "
               "proxies, so the real regular-expression preprocessing, tokeniser, par/mul/add steps and Composite bookkeeping run unchanged. z3 proves that each species' "
               "proportion equals the polynomial obtained by expanding the skeleton, and that the sum row equals the count-weighted per-species data taken straight from the isotope table.")
ASSUMPTIONS = matkit.MAT_STUB_TEXT + [
    "division assumes a non-zero divisor on that path (fractions of a composite whose counts are all zero divide by zero on every tree)",
    "counts are real variables >= 1 (integrality is not needed for the algebra); counterexamples are re-solved over small integers before replay",
    "mass/Z/N/e sums are claimed up to 1e-9 relative (np.average and unit round trips add binary64 noise), posed as two abs-free polynomial queries to nlsat",
]
OUTSIDE = ['charge suffix on D/T (the library drops it; the documented notation does not show it)', 'natural=True for elements without natural abundance (Tc, Pm, Po...: the table has no weights)',
           'formulas with more than 4 species leaves or nesting deeper than 3']
BOUNDS = {'quick': 'all skeleton structures with <= 3 leaves and depth <= 2 plus 40 sampled larger ones; 3 layouts; species sampled by VERIF_SEED',
          'thorough': 'all skeleton structures with <= 4 leaves and depth <= 3; 3 layouts; every element of the table occurs at least once'}
EXHAUSTIVE = {'quick': False, 'thorough': True}
PRE = "from scinumtools.materials import Substance\n" + matkit.MAT_SRC
SUB_SRC = '''
def run(v, O):
    text = render(O, v, v.tree, v.style)
    s = Substance(text, natural=v.natural)
    want = expand(v, v.tree)
    out = [('species set', O.same(sorted(s.components.keys()), sorted(want.keys())))]
    dc = s.data_components(quantity=False)
    d = s.data_composite(quantity=False)
    tot = {'mass': 0, 'Z': 0, 'N': 0, 'e': 0}
    for k, cnt in want.items():
        if k not in s.components: continue
        mass, Z, N, e = species_data(k, v.natural)
        out.append((f'count of {k}', O.eq(s.components[k].proportion, cnt)))
        out.append((f'components row {k}: count', O.eq(dc[k].count, cnt)))
        out.append((f'components row {k}: Z', O.eq(dc[k].Z, Z, 1e-9)))
        out.append((f'components row {k}: N', O.eq(dc[k].N, N, 1e-9)))
        out.append((f'components row {k}: e', O.eq(dc[k].e, e, 1e-9)))
        out.append((f'components row {k}: mass', O.eq(dc[k].mass, mass, 1e-9)))
        out.append((f'composite row {k}: mass', O.close(d[k].mass, cnt * mass)))
        out.append((f'composite row {k}: Z', O.close(d[k].Z, cnt * Z)))
        tot['mass'] = tot['mass'] + cnt * mass; tot['Z'] = tot['Z'] + cnt * Z; tot['N'] = tot['N'] + cnt * N; tot['e'] = tot['e'] + cnt * e
    for col in ('mass', 'Z', 'N', 'e'):
        out.append((f'sum row: {col}', O.close(getattr(d['sum'], col), tot[col])))
    return out
'''
ARITH_SRC = '''
def run(v, O):
    a = Substance(render(O, v, v.tree, 0), natural=v.natural)
    b = Substance(render(O, v, v.tree2, 0), natural=v.natural)
    wa, wb = expand(v, v.tree), expand(v, v.tree2)
    s = a + b
    p = a * v.k
    out = [('a+b species', O.same(sorted(s.components.keys()), sorted(set(wa) | set(wb))))]
    for k in set(wa) | set(wb):
        out.append((f'a+b count of {k}', O.eq(s.components[k].proportion, wa.get(k, 0) + wb.get(k, 0))))
    out.append(('a*k species', O.same(sorted(p.components.keys()), sorted(wa))))
    for k in wa:
        out.append((f'a*k count of {k}', O.eq(p.components[k].proportion, wa[k] * v.k)))
        out.append((f'a unchanged: {k}', O.eq(a.components[k].proportion, wa[k])))
    ds = s.data_composite(quantity=False)['sum']
    tot = 0
    for k in set(wa) | set(wb):
        tot = tot + (wa.get(k, 0) + wb.get(k, 0)) * species_data(k, v.natural)[1]
    out.append(('a+b sum Z', O.close(ds.Z, tot)))
    out.append(('a+b: number fractions of the sum add up to 100', O.eq(ds.x, 100, 1e-9)))
    out.append(('a+b: mass fractions of the sum add up to 100', O.eq(ds.X, 100, 1e-9)))
    return out
'''
TEXT_SRC = '''
def run(v, O):
    out = []
    for text, want in v.cases:
        r = None
        try:
            r = Substance(text, natural=v.natural)
        except Exception as e:
            out.append((f'{text}: parses', O.same(type(e).__name__, None)))
            continue
        got = {k: float(c.proportion) for k, c in r.components.items()}
        out.append((f'{text}: species and counts', O.same(got, {k: float(n) for k, n in want.items()})))
        d = r.data_composite(quantity=False)['sum']
        out.append((f'{text}: total mass is the count-weighted sum', O.eq(d.mass, sum(n * species_data(k, v.natural)[0] for k, n in want.items()), 1e-9)))
        out.append((f'{text}: total electrons', O.eq(d.e, sum(n * species_data(k, v.natural)[3] for k, n in want.items()), 1e-9)))
    return out
'''
# formulas with counts written as decimal numbers (the forms the unchanged library reads), long integer counts, blanks
TEXTS = [('Fe2O1.5', {'Fe': 2, 'O': 1.5}), ('(OH1.5)2', {'O': 2, 'H': 3}), ('OH1.25', {'O': 1, 'H': 1.25}), ('[n]1.5', {'[n]': 1.5}), ('H0.5', {'H': 0.5}), ('O * 1.5 + H', {'O': 1.5, 'H': 1}),
         ('O{16}1.5 + H', {'O{16}': 1.5, 'H': 1}), ('C12H22O11', {'C': 12, 'H': 22, 'O': 11}), ('H10O1', {'H': 10, 'O': 1}), ('(NH4)Cl', {'N': 1, 'H': 4, 'Cl': 1}), ('(OH) Na', {'O': 1, 'H': 1, 'Na': 1}),
         ('([p][e])[n]', {'[p]': 1, '[e]': 1, '[n]': 1}), ('Ca((OH)Na)2', {'Ca': 1, 'O': 2, 'H': 2, 'Na': 2}), ('CH3 + COOH', {'C': 2, 'H': 4, 'O': 2}), ('H2 * 1.5', {'H': 3})]
HISTORY_SRC = '''
def run(v, O):
    # an earlier substance that was grown in place (add) must not influence formulas evaluated afterwards
    out = []
    def counts(r):
        return {k: float(c.proportion) for k, c in r.components.items()}
    for first, want1, mod, later in v.cases:
        s = Substance(first, natural=v.natural)
        out.append((f'{first}: species and counts', O.same(counts(s), {k: float(n) for k, n in want1.items()})))
        s.add(mod, v.n)
        w = dict(want1); w[mod] = w.get(mod, 0) + v.n
        out.append((f'{first} after add({mod}, n): count of {mod}', O.eq(s.components[mod].proportion, w[mod])))
        for text, want in later:
            r = Substance(text, natural=v.natural)
            out.append((f'{text} after {first}.add({mod}, n): species and counts', O.same(counts(r), {k: float(n) for k, n in want.items()})))
            d = r.data_composite(quantity=False)['sum']
            out.append((f'{text} after {first}.add({mod}, n): total mass', O.eq(d.mass, sum(n * species_data(k, v.natural)[0] for k, n in want.items()), 1e-9)))
            out.append((f'{text} after {first}.add({mod}, n): total electrons', O.eq(d.e, sum(n * species_data(k, v.natural)[3] for k, n in want.items()), 1e-9)))
        r = Substance(first, natural=v.natural) + Substance(later[0][0], natural=v.natural)
        w2 = dict(want1)
        for k, n in later[0][1].items():
            w2[k] = w2.get(k, 0) + n
        out.append((f'{first} + {later[0][0]} afterwards: species and counts', O.same(counts(r), {k: float(n) for k, n in w2.items()})))
    return out
'''
HISTORIES = [('O', {'O': 1}, 'O', [('H2O', {'H': 2, 'O': 1}), ('O', {'O': 1}), ('(O)', {'O': 1}), ('CO2', {'C': 1, 'O': 2})]),
             ('(H)', {'H': 1}, 'H', [('H2O', {'H': 2, 'O': 1}), ('H', {'H': 1}), ('NH3', {'N': 1, 'H': 3})]),
             ('O{16}', {'O{16}': 1}, 'O{16}', [('O{16}2', {'O{16}': 2}), ('H2O{16}', {'H': 2, 'O{16}': 1})]),
             ('NaCl', {'Na': 1, 'Cl': 1}, 'Na', [('Na', {'Na': 1}), ('NaOH', {'Na': 1, 'O': 1, 'H': 1})]),
             ('[e]', {'[e]': 1}, '[e]', [('[p][e]', {'[p]': 1, '[e]': 1}), ('[e]2', {'[e]': 2})]),
             ('Fe{+3}', {'Fe{+3}': 1}, 'Fe{+3}', [('Fe{+3}2', {'Fe{+3}': 2}), ('Fe{+3}', {'Fe{+3}': 1})])]
DICT_SRC = '''
def run(v, O):
    s = Substance({v.s1: v.n1, v.s2: v.n2, v.s3: v.n3}, natural=v.natural)
    d = s.data_composite(quantity=False)
    dat = [species_data(k, v.natural) for k in (v.s1, v.s2, v.s3)]
    ns = (v.n1, v.n2, v.n3)
    out = []
    for i, col in enumerate(('mass', 'Z', 'N', 'e')):
        out.append((f'dict sum row: {col}', O.close(getattr(d['sum'], col), sum(n * x[i] for n, x in zip(ns, dat)))))
    return out
'''


def structures(nleaves, depth):
    """all item lists with exactly nleaves species leaves and group nesting <= depth; 'S' leaf, ('G', items) group"""
    if nleaves == 0:
        return [[]]
    out = []
    # first item is a leaf
    for rest in structures(nleaves - 1, depth):
        out.append(['S'] + rest)
    # first item is a group with k leaves
    if depth > 0:
        for k in range(1, nleaves + 1):
            for inner in structures(k, depth - 1):
                if inner == ['S'] and False:
                    continue
                for rest in structures(nleaves - k, depth):
                    out.append([('G', inner)] + rest)
    return out


def species_pool(natural):
    from scinumtools.materials.periodic_table import PT_DATA
    pool = []
    for el, (Z, iso) in PT_DATA.items():
        has_nat = sum(na for (M, na) in iso.values()) > 0
        if has_nat or not natural:
            pool.append(el)
        if has_nat or not natural:
            pool.append(el + '{+2}')
            pool.append(el + '{-}')
        for A in iso:
            pool.append(el + '{' + A + '}')
        A = list(iso)[len(iso) // 2]
        if Z >= 3:
            pool.append(el + '{' + A + '-3}')
        if Z >= 12:
            pool.append(el + '{+12}' if has_nat or not natural else el + '{' + A + '+12}')   # charge numbers with two digits
            pool.append(el + '{' + A + '-10}')
        pool.append(el + '{' + A + '+}')
    pool += ['[p]', '[n]', '[e]', 'D', 'T']
    return pool


def build(struct, names, species, counter, mode):
    """struct -> tree with species texts and count slots; mode: 'all' every slot symbolic, 'groups' only groups, 'mixed'"""
    nodes = []
    for item in struct:
        if item == 'S':
            sp = species.pop()
            slot = None
            if mode in ('all', 'baregroups') or (mode == 'mixed' and counter[0] % 2 == 0):
                slot = f"n{len(names) + 1}"
                names.append(slot)
            elif mode == 'mixed':
                slot = None
            elif mode == 'const':
                slot = 2 + counter[0] % 3
            counter[0] += 1
            nodes.append(('sp', sp, slot))
        else:
            inner = build(item[1], names, species, counter, mode)
            slot = None
            if mode in ('all', 'groups', 'mixed'):
                slot = f"n{len(names) + 1}"
                names.append(slot)
            elif mode == 'const':
                slot = 3
            nodes.append(('grp', inner, slot))
    return nodes


def scenarios(tier, seed):
    rnd = random.Random(seed)
    S = []
    structs = []
    if tier == 'quick':
        for n in (1, 2, 3):
            structs += structures(n, 2)
        big = structures(4, 3)
        structs += rnd.sample(big, 40)
    else:
        for n in (1, 2, 3, 4):
            structs += structures(n, 3)
    pools = {True: species_pool(True), False: species_pool(False)}
    queue = {True: [], False: []}
    for i, st in enumerate(structs):
        natural = (i % 2 == 0)
        style = i % 3
        mode = ('all', 'groups', 'mixed', 'baregroups')[(i // 3) % 4]       # baregroups: groups without a multiplier, e.g. (NH4)Cl
        nleaves = str(st).count("'S'")
        # draw species so that (thorough) the whole pool is used before anything repeats
        sp = []
        while len(sp) < nleaves:
            if not queue[natural]:
                queue[natural] = list(pools[natural])
                rnd.shuffle(queue[natural])
            c = queue[natural].pop()
            if c not in sp or rnd.random() < 0.1:
                sp.append(c)
        if nleaves >= 2 and i % 7 == 0:
            sp[-1] = sp[0]           # the same species twice: counts must add up
        names = []
        tree = build(st, names, list(reversed(sp)), [i], mode)
        if not names:
            tree = build(st, names, list(reversed(sp)), [i], 'all')
        S.append(Scenario(f'formula/{i}:{mode}:{style}:{"nat" if natural else "abund"}', SUB_SRC, {n: ('count0' if i % 5 == 0 else 'count') for n in names},
                          consts={'tree': tree, 'style': style, 'natural': natural}, preamble=PRE,
                          what=f'formula skeleton {tree} layout {style}', samples=1))
    # arithmetic on substances
    for j in range(6 if tier == 'quick' else 20):
        st1, st2 = rnd.choice(structures(2, 1)), rnd.choice(structures(2, 1))
        names = []
        sp = rnd.sample(pools[False], 3)
        t1 = build(st1, names, [sp[0], sp[1]], [j], 'all')
        t2 = build(st2, names, [sp[1], sp[2]] if j % 3 else [sp[2], sp[1]], [j], 'all')     # build() pops from the end: b lists sp[2] first, so the last species a + b adds already exists in a
        inp = {n: 'count' for n in names}
        inp['k'] = 'count0'        # multiplying by zero leaves every species with count zero
        S.append(Scenario(f'arith/{j}', ARITH_SRC, inp, consts={'tree': t1, 'tree2': t2, 'natural': False}, preamble=PRE,
                          what=f'substance addition / scaling {t1} , {t2}', samples=1))
    for j in range(3 if tier == 'quick' else 10):
        sp = rnd.sample(pools[j % 2 == 0], 3)
        S.append(Scenario(f'dict/{j}', DICT_SRC, {'n1': 'count', 'n2': 'count', 'n3': 'count'}, consts={'s1': sp[0], 's2': sp[1], 's3': sp[2], 'natural': j % 2 == 0},
                          preamble=PRE, what=f'substance from a dictionary {sp}', samples=1))
    for j, nat in enumerate((True, False)):
        # the documented short symbols D = H{2} and T = H{3}, with and without a charge suffix
        S.append(Scenario(f'dict/hydrogen-isotopes/{j}', DICT_SRC, {'n1': 'count', 'n2': 'count', 'n3': 'count'}, consts={'s1': 'D{+}', 's2': 'T{-}', 's3': 'D', 'natural': nat},
                          preamble=PRE, what='substance from a dictionary of D{+}, T{-}, D', samples=1))
        S.append(Scenario(f'formula/hydrogen-isotopes/{j}', SUB_SRC, {'n1': 'count', 'n2': 'count'},
                          consts={'tree': [('sp', 'D{+}', 'n1'), ('grp', [('sp', 'O{-2}', None), ('sp', 'T{+}', 'n2')], None), ('sp', 'T', None)], 'style': j, 'natural': nat}, preamble=PRE,
                          what='formula with charged D and T', samples=1))
    for j, nat in enumerate((True, False)):
        S.append(Scenario(f'history/{j}', HISTORY_SRC, {}, consts={'cases': HISTORIES, 'natural': nat, 'n': 2 + j}, preamble=PRE, what='formulas evaluated after an earlier substance was grown in place with add()', samples=1))
        S.append(Scenario(f'texts/{j}', TEXT_SRC, {}, consts={'cases': TEXTS, 'natural': nat}, preamble=PRE, what='formulas with decimal and multi-digit counts, bare groups and blanks (concrete)', samples=1))
    S.append(Scenario('canary/count', SUB_SRC.replace('O.eq(s.components[k].proportion, cnt)', 'O.eq(s.components[k].proportion, cnt + 1)'), {'n1': 'count', 'n2': 'count'},
                      consts={'tree': [('sp', 'Ca', None), ('grp', [('sp', 'O', None), ('sp', 'H', 'n1')], 'n2')], 'style': 0, 'natural': True}, preamble=PRE, canary=True))
    S.append(Scenario('canary/sum', SUB_SRC.replace("tot['Z'] + cnt * Z", "tot['Z'] + cnt * Z * 1.001"), {'n1': 'count', 'n2': 'count'},
                      consts={'tree': [('sp', 'Ca', None), ('grp', [('sp', 'O', None), ('sp', 'H', 'n1')], 'n2')], 'style': 0, 'natural': True}, preamble=PRE, canary=True))
    return S


NT = 16


def tasks(tier, seed):
    return [{'id': f'c10-{i:02d}', 'tier': tier, 'seed': seed, 'slice': [i, NT]} for i in range(NT)]


def run_task(task):
    S = scenarios(task['tier'], task['seed'])
    i, k = task['slice']
    return run_scenarios(S[i::k], matkit.mat_patches, timeout_ms=20000, seed=task['seed'])
