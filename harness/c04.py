"""C04 - linear unit conversion is exact, reversible and dimension-safe."""
import random

from vf.scen import Scenario, run_scenarios
from harness import unitkit

PROPERTY = 'C04'
ENCODED = ['scinumtools.units.quantity:Quantity.to', 'scinumtools.units.quantity:Quantity.value', 'scinumtools.units.quantity:Quantity._convert',
           'scinumtools.units.unit_types:UnitType.__new__', 'scinumtools.units.unit_types:UnitType.convert',
           'scinumtools.units.unit_types:StandardUnitType._istype', 'scinumtools.units.unit_types:StandardUnitType._convert_linear',
           'scinumtools.units.unit_types:StandardUnitType._convert_inversed', 'scinumtools.units.base_units:BaseUnits.__init__',
           'scinumtools.units.base_units:get_unit_base', 'scinumtools.units.unit_solver:AtomParser']
EXPLANATION = ("The magnitude x is a solver variable (any real incl. 0 and negatives); unit strings are enumerated from the prefix/unit tables; "
               "the real Quantity.value/to run on the proxy and z3 proves value = x*F(u)/F(v) (oracle factor from an independent evaluator of the tables), "
               "round trip = x, via-intermediate = direct, reciprocal rule, number->rad rule, and that every path of a dimension-mismatched conversion raises "
               "and leaves the quantity's value term and unit text unchanged.")
ASSUMPTIONS = unitkit.UNITS_STUB_TEXT + [
    "a division by a term that may be zero forks; on the zero side the library's own ZeroDivisionError propagates and is reported (no denominator is assumed away)",
    "equalities are claimed up to 1e-9 relative (table factors are binary64 numbers the library multiplies in floating point)",
    "reciprocal conversions assume x != 0",
]
OUTSIDE = ['arrays longer than 2 elements', 'conversion INTO an expression carrying a numeric factor such as 60*s',
           'temperature and logarithmic units (C05)', 'binary64 rounding / overflow']
BOUNDS = {'quick': {'linear triples': 'one per unit symbol, 140 sampled prefixed symbols by VERIF_SEED', 'mismatch pairs': 260, 'other families': 'quantity targets k w (same, other and reciprocal dimension), conversions after a refused / reciprocal one, empty targets (None, {}, zero dimension list, Dimensions()), 5 system-of-units symbols x 6 exponents, array magnitudes, published prefix ladder'},
          'thorough': {'linear triples': 'every table unit with every admissible prefix occurs as source and as target', 'mismatch pairs': 'all ordered pairs of dimension-class representatives'}}
EXHAUSTIVE = {'quick': False, 'thorough': True}
PRE = "from scinumtools.units import Quantity\n"
SKIP = {'Cel', 'degF', 'Np', 'B', 'Bm', 'BmW', 'BW', 'BV', 'BuV', 'BA', 'BuA', 'BOhm', 'BSPL', 'BSIL', 'BSWL'}


def prefixed_symbols():
    P, U = unitkit.tables()
    out = []
    for u in U.keys():
        if u in SKIP:
            continue
        out.append(u)
        adm = U[u].prefixes
        pres = list(P.keys()) if adm is True else adm if isinstance(adm, list) else []
        for p in pres:
            out.append(p + u)
    return out


def dimkey(sym):
    r = unitkit.ref_parse(sym)
    return tuple(r.dims)


LINEAR_SRC = '''
def run(v, O):
    q = Quantity(v.x, v.u)
    out = [('value(w)=x*F(u)/F(w)', O.eq(q.value(v.w), v.x * v.ruw, 1e-9))]
    q1 = Quantity(v.x, v.u).to(v.w)
    out.append(('to(w)=value(w)', O.eq(q1.value(), v.x * v.ruw, 1e-9)))
    out.append(('to(w).units', O.same(q1.units(), Quantity(1, v.w).units())))
    out.append(('round trip', O.eq(q1.to(v.u).value(), v.x, 1e-9)))
    q2 = Quantity(v.x, v.u).to(v.m).to(v.w)
    out.append(('via intermediate', O.eq(q2.value(), v.x * v.ruw, 1e-9)))
    out.append(('source untouched by value()', O.eq(q.value(), v.x)))
    return out
'''
INVERSE_SRC = '''
def run(v, O):
    q = Quantity(v.x, v.u)
    out = [('reciprocal', O.eq(q.value(v.w) * v.x * v.fu * v.fw, 1, 1e-9))]
    out.append(('reciprocal to()', O.eq(Quantity(v.x, v.u).to(v.w).value() * v.x * v.fu * v.fw, 1, 1e-9)))
    return out
'''
ARRAY_SRC = '''
def run(v, O):
    xs = (v.x, v.x2)
    q = Quantity(O.arr(list(xs)), v.u)
    r1 = q.value(v.w)
    r2 = q.value(v.w)
    out = []
    for i in (0, 1):
        out.append((f'value(w)[{i}] element-wise', O.eq(r1[i], xs[i] * v.ruw, 1e-9)))
        out.append((f'second value(w)[{i}] same', O.eq(r2[i], xs[i] * v.ruw, 1e-9)))
        out.append((f'source[{i}] untouched by value()', O.eq(q.value()[i], xs[i], 1e-9)))
    t = Quantity(O.arr(list(xs)), v.u).to(v.w)
    for i in (0, 1):
        out.append((f'to(w)[{i}]', O.eq(t.value()[i], xs[i] * v.ruw, 1e-9)))
    t.to(v.u)
    for i in (0, 1):
        out.append((f'round trip[{i}]', O.eq(t.value()[i], xs[i], 1e-9)))
    bad = Quantity(O.arr(list(xs)), v.u)
    out.append(('array: other dimension refused', O.raises(lambda: bad.to('cd'))))
    out.append(('array: unchanged after refusal', O.eq(bad.value()[1], v.x2)))
    out.append(('array: units unchanged after refusal', O.same(bad.units(), Quantity(1, v.u).units())))
    return out
'''
NUMRAD_SRC = '''
def run(v, O):
    out = [('number->rad value', O.eq(Quantity(v.x).value('rad'), v.x)),
           ('number->rad to', O.eq(Quantity(v.x).to('rad').value(), v.x)),
           ('number->rad units', O.same(Quantity(v.x).to('rad').units(), 'rad'))]
    return out
'''
QTARGET_SRC = '''
def run(v, O):
    # the target is a quantity k w (a unit with a numeric factor): the result counts how many 'k w' fit into x u
    out = []
    for label, target in (('Quantity(k, w)', Quantity(v.k, v.w)), ('k * Unit(w)', v.k * Unit(v.w))):
        r = Quantity(v.x, v.u).to(target)
        out.append((f'to({label}): value = x F(u) / (k F(w))', O.eq(r.value() * v.k, v.x * v.ruw, 1e-9)))
        out.append((f'to({label}): units', O.same(r.units(), Quantity(1, v.w).units())))
    direct = Quantity(v.x, v.u).to(Quantity(v.k, v.w)).value()
    via = Quantity(v.x, v.u).to(v.w).to(Quantity(v.k, v.w)).value()
    out.append(('direct and via the plain unit agree', O.eq(direct, via, 1e-9)))
    return out
'''
QMIS_SRC = '''
def run(v, O):
    # a quantity target k w: a refused conversion leaves the source as it was, a reciprocal one divides after taking the reciprocal
    out = []
    for label, mk in (('Quantity(k, w)', lambda: Quantity(v.k, v.w)), ('k * Unit(w)', lambda: v.k * Unit(v.w))):
        q = Quantity(v.x, v.u)
        units0 = q.units()
        if v.recip:
            r = q.to(mk())
            out.append((f'to({label}), reciprocal dimension: value = 1 / (x F(u)) / (k F(w))', O.eq(r.value() * v.k * v.x * v.fu * v.fw, 1.0, 1e-9)))
            out.append((f'to({label}), reciprocal dimension: units', O.same(r.units(), Quantity(1, v.w).units())))
        else:
            out.append((f'to({label}) refused', O.raises(lambda: q.to(mk()))))
            out.append((f'to({label}) refused: value unchanged', O.eq(q.value(), v.x)))
            out.append((f'to({label}) refused: units unchanged', O.same(q.units(), units0)))
            out.append((f'to({label}) refused: a linear conversion afterwards', O.eq(q.value(v.u2), v.x * v.r2, 1e-9)))
    return out
'''
EMPTY_SRC = '''
def run(v, O):
    # an empty target (None, {}, all-zero dimension list, Dimensions()) means "a plain number": named dimensionless units are folded into the value, dimensional sources are refused and stay as they were
    from scinumtools.units import Dimensions
    out = []
    targets = (('None', None), ('{}', {}), ('zero dimension list', [0] * 8), ('Dimensions()', Dimensions()))      # the empty string is not a unit expression (it crashes the parser on every tree): not judged
    for label, t in targets:
        q = Quantity(v.x, v.u)
        if v.dimless:
            r = q.to(t)
            out.append((f'to({label}): value = x F(u)', O.eq(r.value(), v.x * v.fu, 1e-9)))
            out.append((f'to({label}): no units left', O.same(r.units(), None)))
        else:
            units0 = q.units()
            out.append((f'to({label}) refused', O.raises(lambda: q.to(t))))
            out.append((f'to({label}) refused: value unchanged', O.eq(q.value(), v.x)))
            out.append((f'to({label}) refused: units unchanged', O.same(q.units(), units0)))
    return out
'''
AFTER_SRC = '''
def run(v, O):
    # a conversion that is refused, or a reciprocal one, must not influence the conversions that follow on the same object
    q = Quantity(v.x, v.u)
    out = []
    if v.bad:
        out.append(('value(bad) refused', O.raises(lambda: q.value(v.bad))))
    if v.recip:
        r1 = q.value(v.recip)
        r2 = q.value(v.recip)
        out.append(('reciprocal value(w) twice gives the same number', O.eq(r2, r1, 1e-12)))
    out.append(('linear conversion afterwards: value(w)', O.eq(q.value(v.w), v.x * v.ruw, 1e-9)))
    if v.bad:
        out.append(('to(bad) refused', O.raises(lambda: q.to(v.bad))))
    out.append(('linear conversion afterwards: to(w)', O.eq(q.to(v.w).value(), v.x * v.ruw, 1e-9)))
    out.append(('units after to(w)', O.same(q.units(), Quantity(1, v.w).units())))
    return out
'''
MISMATCH_SRC = '''
def run(v, O):
    q = Quantity(v.x, v.u) if v.u else Quantity(v.x)
    units0 = q.units()
    out = [('value(w) refused', O.raises(lambda: q.value(v.w)))]
    out.append(('to(w) refused', O.raises(lambda: q.to(v.w))))
    out.append(('quantity unchanged: value', O.eq(q.value(), v.x)))
    out.append(('quantity unchanged: units', O.same(q.units(), units0)))
    return out
'''


def scenarios(tier, seed):
    rnd = random.Random(seed)
    syms = prefixed_symbols()
    classes = {}
    for s in syms:
        classes.setdefault(dimkey(s), []).append(s)
    P, U = unitkit.tables()
    S = []
    # ---- linear triples -------------------------------------------------------
    if tier == 'quick':
        pool = [u for u in U.keys() if u not in SKIP] + rnd.sample(syms, 140)
    else:
        pool = list(syms)
    for u in pool:
        cls = classes[dimkey(u)]
        w = rnd.choice(cls)
        m = rnd.choice(cls)
        ruw = unitkit.ref_parse(u).value() / unitkit.ref_parse(w).value()
        S.append(Scenario(f'linear/{u}->{w} via {m}', LINEAR_SRC, {'x': 'real'}, consts={'u': u, 'w': w, 'm': m, 'ruw': ruw}, preamble=PRE,
                          what=f'linear conversion {u} -> {w} (intermediate {m})', samples=1))
    if tier != 'quick':
        # every symbol also as a target
        for w in syms:
            u = rnd.choice(classes[dimkey(w)])
            m = rnd.choice(classes[dimkey(w)])
            ruw = unitkit.ref_parse(u).value() / unitkit.ref_parse(w).value()
            S.append(Scenario(f'linear/{u}->{w} via {m}', LINEAR_SRC, {'x': 'real'}, consts={'u': u, 'w': w, 'm': m, 'ruw': ruw}, preamble=PRE,
                              what=f'linear conversion {u} -> {w} (intermediate {m})', samples=1))
    compound = [('km/h', 'm/s', 'mi/h'), ('kg*m2/s2', 'J', 'erg'), ('N*m', 'kJ', 'eV'), ('g/cm3', 'kg/m3', 'lb/ft3'), ('kW*h', 'MJ', 'cal'),
                ('m3', 'l', 'gal'), ('(kg*m)/(s2*m2)', 'Pa', 'bar'), ('cm-1', 'm-1', 'Ka'), ('C/s', 'mA', 'Bi'), ('V/A', 'Ohm', 'kOhm'),
                ('m1:2*m1:2', 'cm', 'in'), ('s-2*m', '[g]', 'Gal'), ('J/T', 'erg/G', 'J/T'), ('mol/l', 'mol/m3', 'mmol/cm3'), ('W/m2', 'erg/(s*cm2)', 'kW/km2'),
                ('m2*kg*s-3*A-1', 'V', 'mV'), ('statC', 'dyn1:2*cm', 'Fr'), ('[c]*yr_j', 'ly', 'pc'), ('deg', 'rad', "'"), ('sr', 'rad2', 'deg2')]
    for u, w, m in compound:
        ruw = unitkit.ref_parse(u).value() / unitkit.ref_parse(w).value()
        S.append(Scenario(f'linear/{u}->{w} via {m}', LINEAR_SRC, {'x': 'real'}, consts={'u': u, 'w': w, 'm': m, 'ruw': ruw}, preamble=PRE,
                          what=f'compound conversion {u} -> {w} (intermediate {m})', samples=1))
    for u, w in [('km', 'm'), ('min', 's'), ('kJ', 'erg'), ('cm', 'km'), ('km/h', 'm/s'), ('lb', 'kg')]:
        ruw = unitkit.ref_parse(u).value() / unitkit.ref_parse(w).value()
        S.append(Scenario(f'array/{u}->{w}', ARRAY_SRC, {'x': 'real', 'x2': 'real'}, consts={'u': u, 'w': w, 'ruw': ruw}, preamble=PRE,
                          what=f'element-wise conversion {u} -> {w} of an array quantity', samples=1))
    # ---- reciprocal -----------------------------------------------------------
    inv = [('s', 'Hz'), ('ms', 'kHz'), ('Hz', 's'), ('m', 'Ka'), ('cm', 'm-1'), ('Ohm', 'S'), ('mS', 'kOhm'), ('s', 'Bq'), ('m/s', 's/m'), ('kg/m3', 'cm3/g'), ('yr', 'nHz')]
    for u, w in inv:
        S.append(Scenario(f'inverse/{u}->{w}', INVERSE_SRC, {'x': 'real'}, ['v.x != 0'],
                          consts={'u': u, 'w': w, 'fu': unitkit.ref_parse(u).value(), 'fw': unitkit.ref_parse(w).value()}, preamble=PRE,
                          what=f'reciprocal conversion {u} -> {w}', samples=1))
    S.append(Scenario('number->rad', NUMRAD_SRC, {'x': 'real'}, preamble=PRE, what='bare number to radians'))
    # ---- mismatches -----------------------------------------------------------
    reps = {k: sorted(v, key=len)[0] for k, v in classes.items()}
    keys = list(reps)
    pairs = []
    for a in keys:
        for b in keys:
            if a == b or tuple(-x for x in a) == b:
                continue
            pairs.append((reps[a], reps[b]))
    if tier == 'quick':
        pairs = rnd.sample(pairs, 220)
    special = [('', 'rad/s'), ('', 'rad*m'), ('', 'mrad/ms'), ('', 'rad*kg/h'), ('', 'm*rad'), ('', 'rad2'), ('', 'rad-1'), ('', 'mrad3'), ('', 'm'), ('m', None), ('', 'sr'), ('', 'deg2'), ('%', 'rad'), ('m', 'rad'), ('rad', 'm'),
               ('m', 's'), ('m2', 'm'), ('m', 'm-2'), ('kg', 'Cel'), ('m', 'dBm'), ('J', 'N'), ('W', 'J'), ('Pa', 'N'), ('A', 'C'), ('Hz', 'm-1'),
               ('s', 's-2'), ('m1:2', 'm'), ('statC', 'C'), ('mol', ''), ('cd', 'lm'), ('K', 'J'), ('eV', 'K'), ('l', 'm2'), ('kat', 'mol'), ('Gy', 'J')]
    for u, w in special:
        if w is None:
            continue
        pairs.append((u, w))
    for u, w in pairs:
        if w == '':
            continue
        S.append(Scenario(f'mismatch/{u or "(number)"}->{w}', MISMATCH_SRC, {'x': 'real'}, consts={'u': u, 'w': w}, preamble=PRE,
                          what=f'conversion between different dimensions {u or "(bare number)"} -> {w} must be refused', samples=1))
    # every prefix against the exponent published in docs/source/_static/tables/prefixes.csv (the other scenarios take factors from the library's own tables)
    import csv as _csv, re as _re
    for row in _csv.DictReader(open('/repo/docs/source/_static/tables/prefixes.csv')):
        n = int(_re.search(r'10\^\{(-?\d+)\}', row['Magnitude']).group(1))
        for base, power in (('m', 1), ('s', -2)):
            u = row['Symbol'] + base + (str(power) if power != 1 else '')
            w = base + (str(power) if power != 1 else '')
            S.append(Scenario(f'prefix/{u}->{w}', LINEAR_SRC, {'x': 'real'}, consts={'u': u, 'w': w, 'm': w, 'ruw': 10.0 ** (n * power)}, preamble=PRE,
                              what=f'{u} -> {w} with the published prefix exponent {n}', samples=1))
    # symbols of the unit systems with integer and fractional exponents, converted to the base unit with the same exponent
    from scinumtools.units.settings import QUANTITY_UNITS as _QU
    for sym, base in (('#ALEN', 'm'), ('#CLEN', 'm'), ('#ATIM', 's'), ('#CMAS', 'g'), ('#AMAS', 'g')):
        if sym not in _QU:
            continue
        mag = float(_QU[sym][0])
        for ex, e in (('', 1.0), ('2', 2.0), ('-1', -1.0), ('1:2', 0.5), ('3:2', 1.5), ('-3:2', -1.5)):
            S.append(Scenario(f'system-unit/{sym}{ex}->{base}{ex}', LINEAR_SRC, {'x': 'real'}, ['v.x > 0'], consts={'u': sym + ex, 'w': base + ex, 'm': ('k' + base + ex), 'ruw': mag ** e}, preamble=PRE,
                              what=f'{sym}{ex} -> {base}{ex} (table factor raised to the exponent)', samples=1))
    for u, w in (('m', 'm'), ('m', 'cm'), ('km2', 'km2'), ('kg*m2/s2', 'kg*m2/s2'), ('J', 'erg'), ('km/h', 'm/s'), ('s', 's')):
        ruw = unitkit.ref_parse(u).value() / unitkit.ref_parse(w).value()
        S.append(Scenario(f'qtarget/{u}->{w}', QTARGET_SRC, {'x': 'real', 'k': 'real'}, ['v.k > 0'], consts={'u': u, 'w': w, 'ruw': ruw}, preamble=PRE + 'from scinumtools.units import Unit\n',
                          what=f'{u} converted to a quantity target k {w}', samples=2))
    for u, w, u2, recip in (('km', 's', 'm', False), ('J', 'min', 'erg', False), ('kg', 'm/s', 'g', False), ('m', 'm2', 'cm', False), ('Hz', 's', None, True), ('kHz', 'ms', None, True), ('s', 'kHz', None, True),
                            ('cm-1', 'um', None, True), ('Ohm', 'mS', None, True), ('', 'm', None, False)):
        if u == '':
            continue
        fu, fw = unitkit.ref_parse(u).value(), unitkit.ref_parse(w).value()
        r2 = (fu / unitkit.ref_parse(u2).value()) if u2 else None
        S.append(Scenario(f'qtarget-other-dimension/{u}->{w}', QMIS_SRC, {'x': 'real', 'k': 'real'}, ['v.k > 0', 'v.x > 0'], consts={'u': u, 'w': w, 'u2': u2, 'recip': recip, 'fu': fu, 'fw': fw, 'r2': r2},
                          preamble=PRE + 'from scinumtools.units import Unit\n', what=f'{u} converted to a quantity target k {w} of {"reciprocal" if recip else "another"} dimension', samples=2))
    for u, dimless in (('%', True), ('ppth', True), ('[pi]', True), ('m', False), ('kg*m/s2', False), ('Hz', False), ('rad', False)):
        S.append(Scenario(f'empty-target/{u}', EMPTY_SRC, {'x': 'real'}, ['v.x > 0'], consts={'u': u, 'dimless': dimless, 'fu': unitkit.ref_parse(u).value()}, preamble=PRE,
                          what=f'{u} converted to an empty target', samples=1))
    for u, w, bad, recip in (('km', 'm', 's', None), ('kHz', 'Hz', 'm', 'ms'), ('g/cm3', 'kg/m3', 'kW*h', None), ('cm-1', 'm-1', 'kg', 'um'), ('Ohm', 'kOhm', None, 'S'), ('J', 'erg', 'K', None),
                              ('s', 'ms', None, 'Hz'), ('km/h', 'm/s', 'm', None)):
        ruw = unitkit.ref_parse(u).value() / unitkit.ref_parse(w).value()
        S.append(Scenario(f'after/{u}->{w}/{bad}/{recip}', AFTER_SRC, {'x': 'real'}, ['v.x > 0'], consts={'u': u, 'w': w, 'bad': bad, 'recip': recip, 'ruw': ruw}, preamble=PRE,
                          what=f'{u} -> {w} after a refused conversion to {bad} / a reciprocal conversion to {recip} on the same quantity', samples=2))
    # ---- canaries ---------------------------------------------------------------
    S.append(Scenario('canary/factor', LINEAR_SRC, {'x': 'real'}, consts={'u': 'km', 'w': 'm', 'm': 'cm', 'ruw': 100.0}, preamble=PRE, canary=True))
    S.append(Scenario('canary/mismatch', MISMATCH_SRC, {'x': 'real'}, consts={'u': 'km', 'w': 'mm'}, preamble=PRE, canary=True))
    return S


NT = 16


def tasks(tier, seed):
    return [{'id': f'c04-{i:02d}', 'tier': tier, 'seed': seed, 'slice': [i, NT]} for i in range(NT)]


def run_task(task):
    S = scenarios(task['tier'], task['seed'])
    i, k = task['slice']
    return run_scenarios(S[i::k], unitkit.units_patches, timeout_ms=20000, seed=task['seed'], div_zero='fork')
