"""C07 - operations on quantities never alter their operands."""
from vf.scen import Scenario, run_scenarios
from harness import unitkit

PROPERTY = 'C07'
ENCODED = ['scinumtools.units.quantity:Quantity._add', 'scinumtools.units.quantity:Quantity._sub', 'scinumtools.units.quantity:Quantity._mul',
           'scinumtools.units.quantity:Quantity._truediv', 'scinumtools.units.quantity:Quantity.__pow__', 'scinumtools.units.quantity:Quantity.__neg__',
           'scinumtools.units.quantity:Quantity.__eq__', 'scinumtools.units.quantity:Quantity.__array_ufunc__', 'scinumtools.units.quantity:Quantity.value',
           'scinumtools.units.quantity:Quantity.to', 'scinumtools.units.quantity:Quantity.rebase', 'scinumtools.units.quantity:Quantity.abse',
           'scinumtools.units.quantity:linspace', 'scinumtools.units.quantity:logspace', 'scinumtools.units.quantity:Quantity.__getitem__',
           'scinumtools.units.unit_types:UnitType.add', 'scinumtools.units.unit_types:UnitType.sub', 'scinumtools.units.unit_types:UnitType.convert',
           'scinumtools.units.unit_types:LogarithmicUnitType.add', 'scinumtools.units.unit_types:LogarithmicUnitType.sub']
EXPLANATION = ("Values and uncertainties of every operand are solver variables. Before/after snapshots (value term, unit text, uncertainty term) of each operand are "
               "taken around every operator / NumPy function / value(unit) query and z3 must prove them equal on every path; then the result is converted, rebased "
               "and given a new uncertainty in place and the operands are re-read, and vice versa (operands mutated, result re-read) to expose shared mutable state.")
ASSUMPTIONS = unitkit.UNITS_STUB_TEXT + [
    "np.linspace/np.logspace/np.round/np.floor/np.ceil on proxies are modelled in symx (affine interpolation, ToInt-based rounding)",
    "arrays are 2-element object arrays of proxies",
    "division assumes a non-zero divisor on that path (the unchanged library divides by the value in ** of an uncertain quantity and by interval ends in /; a zero there is a ZeroDivisionError on every tree and outside the property)",
]
OUTSIDE = ['sharing that a caller sets up explicitly by passing one Magnitude/BaseUnits object to two Quantity constructors', 'the Python type (float vs Decimal) of an unchanged value']
BOUNDS = {'quick': 'operator list x operand-unit pairs below, one in-place mutation round in each direction; aliased operands (a+a, (a+b)+a, a and -a) for 7 unit pairs; neutral-element operations on % operands; derived quantities', 'thorough': 'same with more unit pairs'}
EXHAUSTIVE = {'quick': True, 'thorough': True}
PRE = '''
import numpy as np
from scinumtools.units import Quantity, Unit
def _freeze(x):
    # arrays are mutable: a snapshot must hold its own copy of the elements
    return list(x) if hasattr(x, 'shape') and getattr(x, 'shape', ()) != () else x
def snap(q):
    return (_freeze(q.value()), q.units(), _freeze(q.abse()), dict(q.baseunits.value()), list(q.baseunits.dimensions.value()))
def same(O, tag, s0, s1):
    out = []
    v0, v1 = s0[0], s1[0]
    if isinstance(v0, list):
        for i in range(len(v0)):
            out.append((f'{tag}: value[{i}] unchanged', O.eq(v1[i], v0[i])))
    else:
        out.append((f'{tag}: value unchanged', O.eq(v1, v0)))
    out.append((f'{tag}: units unchanged', O.same(s1[1], s0[1])))
    e0, e1 = s0[2], s1[2]
    if e0 is None or e1 is None:
        out.append((f'{tag}: uncertainty unchanged', e0 is None and e1 is None))
    elif isinstance(e0, list):
        for i in range(len(e0)):
            out.append((f'{tag}: uncertainty[{i}] unchanged', O.eq(e1[i], e0[i])))
    else:
        out.append((f'{tag}: uncertainty unchanged', O.eq(e1, e0)))
    out.append((f'{tag}: unit exponents unchanged', O.same(s1[3], s0[3])))
    out.append((f'{tag}: dimensions unchanged', O.same(s1[4], s0[4])))
    return out
def mk(O, kind, x, x2, u, e):
    if kind == 'arr': return Quantity(O.arr([x, x2]), u, abse=e)
    if kind == 'arrx': return Quantity(O.arr([x, x2]), u)
    if kind == 'dec': return Quantity(O.dec(x), u)
    if kind == 'exact': return Quantity(x, u)
    return Quantity(x, u, abse=e)
'''
BIN_SRC = '''
def run(v, O):
    A = mk(O, v.kind, v.a, v.a2, v.ua, v.ea); B = mk(O, v.kind, v.b, v.b2, v.ub, v.eb)
    op = OPS[v.op]
    a0, b0 = snap(A), snap(B)
    r = op(A, B)
    out = same(O, 'left operand after op', a0, snap(A)) + same(O, 'right operand after op', b0, snap(B))
    if isinstance(r, Quantity):
        # mutate the result in place; operands must not notice
        r.rebase()
        if v.ur: r.to(v.ur)
        if v.kind != 'dec': r.abse(v.e2)
        r.rebase()
        out += same(O, 'left operand after mutating result', a0, snap(A)) + same(O, 'right operand after mutating result', b0, snap(B))
        # and vice versa
        r = op(A, B)
        r0 = snap(r)
        A.to(v.ua2); B.to(v.ub2)
        if v.kind != 'dec': A.abse(v.e2); B.abse(v.e2)
        out += same(O, 'result after mutating operands', r0, snap(r))
    return out
'''
UN_SRC = '''
def run(v, O):
    A = mk(O, v.kind, v.a, v.a2, v.ua, v.ea)
    op = OPS[v.op]
    a0 = snap(A)
    r = op(A)
    out = same(O, 'operand after op', a0, snap(A))
    if isinstance(r, Quantity):
        r.rebase()
        if v.ur: r.to(v.ur)
        r.abse(v.e2)
        r.rebase()
        out += same(O, 'operand after mutating result', a0, snap(A))
        r = op(A)
        r0 = snap(r)
        A.to(v.ua2); A.abse(v.e2)
        out += same(O, 'result after mutating operand', r0, snap(r))
    return out
'''
INPLACE_SRC = '''
def run(v, O):
    A = Quantity(v.a, v.ua, abse=v.ea); B = Quantity(v.b, v.ua, abse=v.eb)
    C = A + B
    D = -A
    b0, c0, d0 = snap(B), snap(C), snap(D)
    A.to(v.ua2); A.abse(v.e2); A.rebase()
    out = same(O, 'other quantity after in-place methods', b0, snap(B)) + same(O, 'earlier sum after in-place methods', c0, snap(C)) + same(O, 'earlier negation after in-place methods', d0, snap(D))
    out.append(('to() converts the receiver', O.eq(Quantity(v.a, v.ua).to(v.ua2).value(), Quantity(v.a, v.ua).value(v.ua2), 1e-9)))
    out.append(('abse() sets the receiver', O.eq(A.abse(), v.e2)))
    return out
'''
DERIVED_SRC = '''
def run(v, O):
    # quantities derived from A (results, or built from A's magnitude / units); the in-place methods on them must leave A alone
    A = Quantity(v.a, v.ua, abse=v.ea)
    a0 = snap(A)
    units0 = A.units()
    derived = [('a+a', A + A), ('-a', -A), ('a*1', A * 1), ('a*1.0', A * 1.0), ('a/1', A / 1), ('a*Unit(s)', A * Unit('s')), ('a**1', A ** 1), ('a[...] copy via value', Quantity(A.value(), v.ua, abse=v.ea))]
    out = []
    for label, D in derived:
        D.abse(v.e2)
        D.rebase()
        out += same(O, f'operand after abse()/rebase() on {label}', a0, snap(A))
        out.append((f'operand still equals a fresh copy after {label}', O.truth(A == Quantity(v.a, v.ua))))
    out.append(('units of a later product equal those of a fresh copy', O.same((A * Unit('s')).units(), (Quantity(v.a, v.ua) * Unit('s')).units())))
    return out
'''
ALIAS_SRC = '''
def run(v, O):
    # operands that are one object, or share their units object with an earlier result (results reuse the left operand's units)
    A = Quantity(v.a, v.ua) if v.exact else Quantity(v.a, v.ua, abse=v.ea)
    B = Quantity(v.b, v.ub) if v.exact else Quantity(v.b, v.ub, abse=v.eb)
    a0, b0 = snap(A), snap(B)
    out = []
    r = A + A
    out += same(O, 'operand after a + a', a0, snap(A))
    S = A + B
    s0 = snap(S)
    r = S + A
    out += same(O, 'left operand after (a+b) + a', a0, snap(A)) + same(O, 'sum after (a+b) + a', s0, snap(S))
    r = S - B
    out += same(O, 'right operand after (a+b) - b', b0, snap(B)) + same(O, 'sum after (a+b) - b', s0, snap(S))
    r = A + S
    out += same(O, 'operand after a + (a+b)', a0, snap(A)) + same(O, 'sum after a + (a+b)', s0, snap(S))
    N = -A
    n0 = snap(N)
    r = N + A if not v.log else A + N
    out += same(O, 'operand after combining with its negation', a0, snap(A)) + same(O, 'negation after combining with its operand', n0, snap(N))
    if not v.log:
        r = A * A; r = A / A; r = A - A
        out += same(O, 'operand after a*a, a/a, a-a', a0, snap(A))
    out.append(('a == a', O.truth(A == A)))
    out += same(O, 'operand after a == a', a0, snap(A))
    out.append(('a + a equals the sum of two separate copies', O.eq((A + A).value(), (Quantity(v.a, v.ua) + Quantity(v.a, v.ua)).value(), 1e-9)))
    return out
'''
OPS_BIN = {
    'add': 'lambda A, B: A + B', 'sub': 'lambda A, B: A - B', 'mul': 'lambda A, B: A * B', 'div': 'lambda A, B: A / B',
    'eq': 'lambda A, B: A == B', 'radd': 'lambda A, B: B + A', 'rsub': 'lambda A, B: B - A',
    'linspace': 'lambda A, B: np.linspace(A, B, 3)', 'logspace': 'lambda A, B: np.logspace(A, B, 3)',
    'value_in_unit_of': 'lambda A, B: A.value(B.baseunits)',
}
OPS_UN = {
    'neg': 'lambda A: -A', 'pow2': 'lambda A: A ** 2', 'pow_half': 'lambda A: A ** 0.5', 'sqrt': 'lambda A: np.sqrt(A)', 'sin': 'lambda A: np.sin(A)',
    'cos': 'lambda A: np.cos(A)', 'tan': 'lambda A: np.tan(A)', 'abs': 'lambda A: np.abs(A)', 'absolute': 'lambda A: np.absolute(A)',
    'floor': 'lambda A: np.floor(A)', 'ceil': 'lambda A: np.ceil(A)', 'round': 'lambda A: np.round(A)', 'sum': 'lambda A: np.sum(A)',
    'value_other_unit': 'lambda A: A.value(ALT)', 'mul_number': 'lambda A: A * 3', 'rmul_number': 'lambda A: 3 * A', 'rdiv_number': 'lambda A: 3 / A',
    'arcsin': 'lambda A: np.arcsin(A)', 'arccos': 'lambda A: np.arccos(A)', 'arctan': 'lambda A: np.arctan(A)', 'cbrt': 'lambda A: np.cbrt(A)',
    'radd_zero': 'lambda A: 0 + A', 'radd_zero_float': 'lambda A: 0.0 + A', 'rsub_zero': 'lambda A: 0 - A', 'builtin_sum': 'lambda A: sum([A])', 'add_zero': 'lambda A: A + 0', 'mul_one': 'lambda A: 1 * A', 'div_one': 'lambda A: A / 1',
    'getitem': 'lambda A: A[0]', 'units': 'lambda A: A.units()', 'str': 'lambda A: str(A.baseunits)', 'power': 'lambda A: np.power(A, 2)',
}
# (left unit, right unit, unit to convert result to, other unit for left, other unit for right)
PAIRS = {
    'same': ('km', 'km', 'm', 'cm', 'mm'),
    'samedim': ('km', 'm', 'cm', 'mm', 'in'),
    'energy': ('J', 'erg', 'eV', 'kJ', 'cal'),
    'angle': ('deg', 'rad', 'rad', "'", 'mrad'),
}
RATIO = ('%', 'ppth', None, 'ppth', '%')
R = {'a': 'real', 'b': 'real', 'a2': 'real', 'b2': 'real', 'ea': 'real', 'eb': 'real', 'e2': 'real'}
POS = ['v.ea >= 0', 'v.eb >= 0', 'v.e2 >= 0']


def scenarios(tier, seed):
    S = []
    for op, src in OPS_BIN.items():
        for pname, (ua, ub, ur, ua2, ub2) in PAIRS.items():
            if tier == 'quick' and pname == 'energy' and op not in ('add', 'eq'):
                continue
            for kind in ('scalar', 'arr', 'dec'):
                if kind == 'arr' and op in ('mul', 'div'):
                    kind = 'arrx'   # uncertain array products only add non-linear branch conditions, irrelevant for aliasing
                if kind == 'dec' and op not in ('add', 'sub', 'value_in_unit_of'):
                    continue
                if kind == 'arr' and op in ('linspace', 'logspace'):
                    continue
                if kind != 'scalar' and pname not in ('samedim',):
                    continue
                if op == 'logspace' and pname == 'angle':
                    continue
                ur_ = ur
                if op in ('mul',):
                    ur_ = {'same': 'm2', 'samedim': 'm2', 'energy': 'J2', 'angle': 'rad2'}[pname]
                if op in ('div',):
                    ur_ = None
                if op in ('eq', 'value_in_unit_of'):
                    ur_ = None
                pre = list(POS) + (['v.b != 0', 'v.b2 != 0'] if op in ('div', 'eq') else [])
                S.append(Scenario(f'bin/{op}/{pname}/{kind}', BIN_SRC, R, pre,
                                  consts={'op': op, 'kind': kind, 'ua': ua, 'ub': ub, 'ur': ur_, 'ua2': ua2, 'ub2': ub2},
                                  preamble=PRE + f"OPS = {{{op!r}: {src}}}\n", what=f'{op} on {kind} operands in {ua} and {ub}', samples=1))
    for op, src in OPS_UN.items():
        for pname, (ua, ub, ur, ua2, ub2) in list(PAIRS.items()) + [('ratio', RATIO)]:
            if op in ('sin', 'cos', 'tan') and pname != 'angle':
                continue
            if op in ('arcsin', 'arccos', 'arctan', 'radd_zero', 'radd_zero_float', 'rsub_zero', 'builtin_sum', 'add_zero'):
                if pname != 'ratio':
                    continue       # inverse trigonometric functions take a dimensionless argument, here written in % 
            elif pname == 'ratio':
                continue
            elif op not in ('sin', 'cos', 'tan', 'neg', 'value_other_unit') and pname not in ('samedim',):
                continue
            for kind in ('scalar', 'arr'):
                if op in ('sum', 'getitem') and kind != 'arr':
                    continue
                if op in ('round', 'floor', 'ceil') and kind == 'arr':
                    pass
                ur_ = ur if op in ('neg', 'abs', 'absolute', 'floor', 'ceil', 'round', 'sum', 'mul_number', 'rmul_number', 'getitem') else None
                pre = list(POS) + (['v.a > 0', 'v.a2 > 0'] if op in ('pow_half', 'sqrt', 'rdiv_number') else [])
                S.append(Scenario(f'un/{op}/{pname}/{kind}', UN_SRC, {'a': 'real', 'a2': 'real', 'ea': 'real', 'e2': 'real'}, ['v.ea >= 0', 'v.e2 >= 0'] + pre[3:],
                                  consts={'op': op, 'kind': kind, 'ua': ua, 'ur': ur_, 'ua2': ua2},
                                  preamble=PRE + f"ALT = {ub!r}\nOPS = {{{op!r}: {src}}}\n", what=f'{op} on a {kind} operand in {ua}', samples=1))
    # logarithmic operands: level addition / subtraction
    for op in ('add', 'sub', 'eq'):
        for w, wb, ur, w2 in (('dBm', 'dBm', 'dBW', 'Bm'), ('dB', 'dB', 'B', 'B'), ('dBV', 'dBV', 'dBuV', 'BV'), ('dB', 'B', 'B', 'dB'), ('Bm', 'dBm', 'dBW', 'dBm'), ('dBA', 'BA', 'BA', 'dBA')):
            S.append(Scenario(f'bin/{op}/log-{w}-{wb}/scalar', BIN_SRC, R, POS + (['v.a > 1000', 'v.b < 1'] if op == 'sub' else []) + (['v.b != 0'] if op == 'eq' else []),
                              consts={'op': op, 'kind': 'exact', 'ua': w, 'ub': wb, 'ur': ur if op != 'eq' else None, 'ua2': w2, 'ub2': w2},
                              preamble=PRE + f"OPS = {{{op!r}: {OPS_BIN[op]}}}\n", what=f'{op} on logarithmic operands in {w}', samples=1))
    for ua, ub, log in (('km', 'm', False), ('J', 'J', False), ('dBm', 'dBm', True), ('dBV', 'dBV', True), ('dB', 'dB', True), ('dBA', 'dBA', True), ('Cel', 'Cel', False)):
        for exact in ((True, False) if not log else (True,)):
            if ua == 'Cel' and not exact:
                continue
            S.append(Scenario(f'alias/{ua}-{ub}/{"exact" if exact else "uncertain"}', ALIAS_SRC, {'a': 'real', 'b': 'real', 'ea': 'real', 'eb': 'real'}, ['v.ea >= 0', 'v.eb >= 0', 'v.a != 0', 'v.b != 0'] + (['v.a > 0', 'v.b > 0'] if ua == 'Cel' else []),
                              consts={'ua': ua, 'ub': ub, 'log': log, 'exact': exact}, preamble=PRE, what=f'operations whose operands are one object or share their units with an earlier result ({ua}, {ub})', samples=2))
    for pname, (ua, ub, ur, ua2, ub2) in PAIRS.items():
        S.append(Scenario(f'inplace/{pname}', INPLACE_SRC, {'a': 'real', 'b': 'real', 'ea': 'real', 'eb': 'real', 'e2': 'real'}, POS,
                          consts={'ua': ua, 'ua2': ua2}, preamble=PRE, what=f'in-place methods change only their receiver ({ua})', samples=1))
    for ua in ('cm*m', 'km*s-1*m', 'm', 'J*erg-1*kg'):
        S.append(Scenario(f'derived/{ua}', DERIVED_SRC, {'a': 'real', 'b': 'real', 'ea': 'real', 'e2': 'real'}, ['v.ea >= 0', 'v.e2 >= 0', 'v.a > 0'], consts={'ua': ua}, preamble=PRE,
                          what=f'in-place methods on quantities derived from a quantity in {ua}', samples=2))
    S.append(Scenario('canary/snapshot', '''
        def run(v, O):
            A = Quantity(v.a, 'km', abse=v.ea)
            a0 = snap(A)
            A.to('m')
            return same(O, 'canary', a0, snap(A))
        ''', {'a': 'real', 'ea': 'real'}, ['v.ea >= 0'], preamble=PRE, canary=True))
    return S


NT = 16


def tasks(tier, seed):
    return [{'id': f'c07-{i:02d}', 'tier': tier, 'seed': seed, 'slice': [i, NT]} for i in range(NT)]


def run_task(task):
    S = scenarios(task['tier'], task['seed'])
    i, k = task['slice']
    return run_scenarios(S[i::k], unitkit.units_patches, timeout_ms=20000, seed=task['seed'])
