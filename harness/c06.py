"""C06 - quantity arithmetic agrees with arithmetic on base-dimension values."""
import random

from vf.scen import Scenario, run_scenarios
from harness import unitkit

PROPERTY = 'C06'
ENCODED = ['scinumtools.units.quantity:Quantity.__init__', 'scinumtools.units.quantity:Quantity._add', 'scinumtools.units.quantity:Quantity._sub',
           'scinumtools.units.quantity:Quantity._mul', 'scinumtools.units.quantity:Quantity._truediv', 'scinumtools.units.quantity:Quantity.__pow__',
           'scinumtools.units.quantity:Quantity.__neg__', 'scinumtools.units.quantity:Quantity.__radd__', 'scinumtools.units.quantity:Quantity.__rsub__',
           'scinumtools.units.quantity:Quantity.__rmul__', 'scinumtools.units.quantity:Quantity.__rtruediv__',
           'scinumtools.units.unit_types:UnitType.add', 'scinumtools.units.unit_types:UnitType.sub',
           'scinumtools.units.base_units:BaseUnits.__add__', 'scinumtools.units.base_units:BaseUnits.__sub__', 'scinumtools.units.base_units:BaseUnits.__mul__',
           'scinumtools.units.base_units:BaseUnits.__truediv__', 'scinumtools.units.fraction:Fraction.__mul__', 'scinumtools.units.fraction:Fraction.__truediv__',
           'scinumtools.units.magnitude:Magnitude._add', 'scinumtools.units.magnitude:Magnitude._mul', 'scinumtools.units.magnitude:Magnitude._truediv',
           'scinumtools.units.magnitude:Magnitude.__pow__']
EXPLANATION = ("Magnitudes a,b and the plain-number operand c are solver variables; operand units are enumerated. The real operators run on proxies; "
               "z3 proves base(result) = op(base(a), base(b)) with base(q) = q.value() * factor(q.units()) where the factor of the *result's own unit text* "
               "comes from an independent evaluator of the unit tables; unit exponents, dimension vectors and the carried unit text are compared exactly on every path.")
ASSUMPTIONS = unitkit.UNITS_STUB_TEXT + [
    "equalities up to 1e-9 relative (table factors are binary64)",
    "power: value part claimed as pow(a, n/d) (uninterpreted for non-integer exponents, a > 0) and the unit factor part factor(u)**(n/d) concretely",
    "a division by a term that may be zero forks; on the zero side the library's own ZeroDivisionError propagates and is reported (no denominator is assumed away)",
]
OUTSIDE = ['temperature / logarithmic operands (C05)', 'arrays longer than 2', 'binary64 rounding']
BOUNDS = {'quick': {'unit pairs': '24 +/- pairs, 22 */ pairs', 'exponents': 'n/d, n in -3..3, d in 1..4, as int, tuple, Fraction, float, NumPy floats; whole exponents (also unreduced pairs / Fractions) on magnitudes of either sign', 'numpy left operands': '6 NumPy scalars/arrays x 5 units x 4 operators (concrete)'},
          'thorough': {'unit pairs': 'plus 120 random same-dimension pairs and 120 random products from the prefixed-symbol list', 'exponents': 'same, on 6 base units'}}
EXHAUSTIVE = {'quick': False, 'thorough': False}
PRE = "from scinumtools.units import Quantity, Fraction\nimport fractions as _fr\nimport numpy as np\n" + unitkit.REF_SRC + '''
def base(O, q):
    f, d, ex = ref_units(q.units())
    return q.value() * f
def fold(exps):
    """documented rule: drop zero exponents; when all dimensions cancel, dimensional units are folded into the number"""
    exps = {k: e for k, e in exps.items() if e != 0}
    tot = [_fr.Fraction(0)] * 8
    per = {}
    for (pre, b), e in exps.items():
        d = ref_atom(pre + b)[1]
        per[(pre, b)] = d
        tot = [x + y * e for x, y in zip(tot, d)]
    if all(x == 0 for x in tot):
        exps = {k: e for k, e in exps.items() if all(x == 0 for x in per[k])}
    return exps
def comb(ea, eb, sign):
    out = dict(ea)
    for k, e in eb.items():
        out[k] = out.get(k, 0) + sign * e
    return out
'''
ADDSUB_SRC = '''
def run(v, O):
    fa = ref_units(v.ua)[0]; fb = ref_units(v.ub)[0]
    A = Quantity(v.a, v.ua); B = Quantity(v.b, v.ub)
    ua0 = A.units()
    s = A + B
    d = A - B
    out = [('a+b base', O.eq(base(O, s), v.a * fa + v.b * fb, 1e-9)), ('a-b base', O.eq(base(O, d), v.a * fa - v.b * fb, 1e-9)),
           ('a+b carries left units', O.same(s.units(), ua0)), ('a-b carries left units', O.same(d.units(), ua0)),
           ('a+b value in left units', O.eq(s.value() * fa, v.a * fa + v.b * fb, 1e-9))]
    # the same operands the other way round, after they were used once: the sum now carries b's units
    ub0 = Quantity(v.b, v.ub).units()
    s2 = B + A
    d2 = B - A
    out += [('b+a (after a+b) carries b units', O.same(s2.units(), ub0)), ('b+a (after a+b) value in b units', O.eq(s2.value() * fb, v.a * fa + v.b * fb, 1e-9)),
            ('b-a (after a-b) carries b units', O.same(d2.units(), ub0)), ('b-a (after a-b) value in b units', O.eq(d2.value() * fb, v.b * fb - v.a * fa, 1e-9))]
    return out
'''
MULDIV_SRC = '''
def run(v, O):
    fa = ref_units(v.ua)[0]; fb = ref_units(v.ub)[0]
    A = Quantity(v.a, v.ua); B = Quantity(v.b, v.ub)
    ea, eb = lib_exps(A), lib_exps(B)
    p = A * B
    q = A / B
    out = [('a*b base', O.eq(base(O, p), (v.a * fa) * (v.b * fb), 1e-9)), ('a/b base', O.eq(base(O, q) * (v.b * fb), v.a * fa, 1e-9)),
           ('a*b exponents add', O.same(lib_exps(p), fold(comb(ea, eb, 1)))), ('a/b exponents subtract', O.same(lib_exps(q), fold(comb(ea, eb, -1)))),
           ('a*b dimensions', O.same(lib_dims(p), [x + y for x, y in zip(ref_units(v.ua)[1], ref_units(v.ub)[1])] if fold(comb(ea, eb, 1)) else [0] * 8)),
           ]
    return out
'''
NUMBER_SRC = '''
def run(v, O):
    f = ref_units(v.u)[0]
    A = Quantity(v.a, v.u)
    out = [('q*c', O.eq(base(O, A * v.c), v.a * f * v.c, 1e-9)), ('c*q', O.eq(base(O, v.c * A), v.a * f * v.c, 1e-9)),
           ('q/c', O.eq(base(O, A / v.c) * v.c, v.a * f, 1e-9)), ('c/q', O.eq(base(O, v.c / A) * v.a * f, v.c, 1e-9)),
           ('q*c units', O.same((A * v.c).units(), A.units())), ('c/q exponents', O.same(lib_exps(v.c / A), {k: -e for k, e in lib_exps(A).items()})),
           ('neg value', O.eq((-A).value(), -v.a)), ('neg units', O.same((-A).units(), A.units()))]
    N = Quantity(v.a, v.u)
    out += [('q+(-q) is zero', O.eq((N + (-N)).value(), 0, 1e-9)), ('q-(-q) is 2q', O.eq((N - (-N)).value(), 2 * v.a, 1e-9)),
            ('q*(-q) is -(q*q)', O.eq(base(O, N * (-N)), -(v.a * f) * (v.a * f), 1e-9)), ('q read after -q', O.eq(N.value(), v.a))]
    if v.nodim:
        out += [('q+c', O.eq(base(O, A + v.c), v.a * f + v.c, 1e-9)), ('c+q', O.eq(base(O, v.c + A), v.a * f + v.c, 1e-9)),
                ('q-c', O.eq(base(O, A - v.c), v.a * f - v.c, 1e-9)), ('c-q', O.eq(base(O, v.c - A), v.c - v.a * f, 1e-9)),
                ('q+c carries left units', O.same((A + v.c).units(), A.units())),
                ('c+q carries no units (the left operand is a plain number)', O.same((v.c + A).units(), None)), ('c-q carries no units', O.same((v.c - A).units(), None)),
                ('c+q value', O.eq((v.c + A).value(), v.c + v.a * f, 1e-9)), ('c-q value', O.eq((v.c - A).value(), v.c - v.a * f, 1e-9)), ('q+c value in q units', O.eq((A + v.c).value() * f, v.a * f + v.c, 1e-9))]
    else:
        out += [('q+c refused', O.raises(lambda: A + v.c)), ('c+q refused', O.raises(lambda: v.c + A)),
                ('q-c refused', O.raises(lambda: A - v.c)), ('c-q refused', O.raises(lambda: v.c - A))]
    return out
'''
MISMATCH_SRC = '''
def run(v, O):
    A = Quantity(v.a, v.ua); B = Quantity(v.b, v.ub)
    return [('a+b refused', O.raises(lambda: A + B)), ('a-b refused', O.raises(lambda: A - B)),
            ('b+a refused', O.raises(lambda: B + A)), ('b-a refused', O.raises(lambda: B - A))]
'''
NUMDIM_SRC = '''
import numpy as np
def run(v, O):
    # a plain number (zero included) and a dimensional quantity are of different dimension: refused on either side, and the quantity is not handed back as the "sum"
    out = []
    for label, k in (('0', 0), ('0.0', 0.0), ('-0.0', -0.0), ('1', 1), ('2.5', 2.5), ('np.float64(0)', np.float64(0)), ('[0, 0]', [0, 0])):
        q = Quantity(v.a, v.u)
        out.append((f'{label} + quantity refused', O.raises(lambda: k + q)))
        out.append((f'quantity + {label} refused', O.raises(lambda: q + k)))
        out.append((f'{label} - quantity refused', O.raises(lambda: k - q)))
        out.append((f'quantity - {label} refused', O.raises(lambda: q - k)))
    out.append(('sum() of a list of dimensional quantities (starts from a plain 0) refused', O.raises(lambda: sum([Quantity(v.a, v.u), Quantity(v.a, v.u)]))))
    out.append(('symbolic number + quantity refused', O.raises(lambda: v.c + Quantity(v.a, v.u))))
    return out
'''
POW_SRC = '''
def run(v, O):
    f, d, ex = ref_units(v.u)
    A = Quantity(v.a, v.u)
    want = _fr.Fraction(v.n, v.d)
    forms = []
    if v.d == 1:
        # whole exponents, however they are written, apply to magnitudes of either sign
        forms.append(('int', v.n)); forms.append(('unreduced tuple', (2 * v.n, 2))); forms.append(('unreduced Fraction', Fraction(3 * v.n, 3)))
    forms.append(('tuple', (v.n, v.d)))
    forms.append(('Fraction', Fraction(v.n, v.d)))
    forms.append(('float', v.n / v.d))
    if v.d in (1, 2, 4):          # exactly representable in every binary float type
        forms.append(('np.float64', np.float64(v.n / v.d)))
        forms.append(('np.float32', np.float32(v.n / v.d)))
        forms.append(('np.float16', np.float16(v.n / v.d)))
    out = []
    for name, p in forms:
        r = A ** p
        out.append((f'{name}: value is a**(n/d)', O.eq(r.value(), O.pow(v.a, want) if want.denominator != 1 else v.a ** int(want))))
        out.append((f'{name}: exponents multiplied', O.same(lib_exps(r), fold({k: e * want for k, e in lib_exps(A).items()}))))
        out.append((f'{name}: dimensions multiplied', O.same(lib_dims(r), [x * want for x in d])))
        out.append((f'{name}: unit factor', O.eq(ref_units(r.units())[0], f ** float(want), 1e-9)))
    return out
'''
NPLEFT_SRC = '''
import numpy as np
def run(v, O):
    # a NumPy number or array on the LEFT of an operator (the documentation's  np.array([1,2,3]) * Constant('c') ): same result as the Python number / list there
    out = []
    def outcome(fn):
        try:
            r = fn()
            return ('ok', np.asarray(r.value(), dtype=float).tolist(), r.units())
        except Exception as e:
            return ('raised', type(e).__name__)
    lefts = [('np.float64', np.float64(2.5), 2.5), ('np.int64', np.int64(3), 3), ('np.float32', np.float32(0.5), 0.5), ('1-d array', np.array([1., 2., 3.]), [1., 2., 3.]), ('2-d array', np.array([[1., 2.], [3., 4.]]), [[1., 2.], [3., 4.]]),
             ('int array', np.array([1, 2, 3]), [1, 2, 3])]
    for lname, npv, pyv in lefts:
        for u in v.units:
            mk = (lambda: Quantity(4.0, u)) if u else (lambda: Quantity(4.0))
            for oname, op in (('*', lambda a, b: a * b), ('/', lambda a, b: a / b), ('+', lambda a, b: a + b), ('-', lambda a, b: a - b)):
                want = outcome(lambda: op(pyv, mk()))
                got = outcome(lambda: op(npv, mk()))
                out.append((f'{lname} {oname} quantity in {u}: as with the Python number on the left', O.same(got[0], want[0]) and (got[0] != 'ok' or (O.same(got[2], want[2]) and O.same(np.allclose(got[1], want[1], rtol=1e-12), True)))))
                if oname in '*/' and u:
                    out.append((f'{lname} {oname} quantity in {u}: accepted', O.same(got[0], 'ok')))
    q = np.array([1., 2., 3.]) * Quantity(2.0, 'km')
    out.append(('array * quantity: value', O.same(np.asarray(q.value()).tolist(), [2., 4., 6.]) if hasattr(q, 'value') else False))
    out.append(('array * quantity: units', O.same(q.units(), 'km') if hasattr(q, 'units') else False))
    out.append(('array * quantity: base value', O.same(np.allclose(np.asarray(q.value('m')), [2000., 4000., 6000.]), True) if hasattr(q, 'value') else False))
    return out
'''
ARRAY_SRC = '''
def run(v, O):
    fa = ref_units(v.ua)[0]; fb = ref_units(v.ub)[0]
    A = Quantity(O.arr([v.a, v.a2]), v.ua); B = Quantity(O.arr([v.b, v.b2]), v.ub)
    fs = ref_units((A + B).units())[0]; fp = ref_units((A * B).units())[0]; fq = ref_units((A / B).units())[0]
    out = []
    for i, (a, b) in enumerate(((v.a, v.b), (v.a2, v.b2))):
        out.append((f'(a+b)[{i}]', O.eq((A + B).value()[i] * fs, a * fa + b * fb, 1e-9)))
        out.append((f'(a-b)[{i}]', O.eq((A - B).value()[i] * fs, a * fa - b * fb, 1e-9)))
        out.append((f'(a*b)[{i}]', O.eq((A * B).value()[i] * fp, a * fa * b * fb, 1e-9)))
        out.append((f'(a/b)[{i}]', O.eq((A / B).value()[i] * fq * b * fb, a * fa, 1e-9)))
        out.append((f'(a*c)[{i}]', O.eq((A * v.b).value()[i], a * v.b, 1e-9)))
        out.append((f'(c*a)[{i}]', O.eq((v.b * A).value()[i], a * v.b, 1e-9)))
        out.append((f'(a**2)[{i}]', O.eq((A ** 2).value()[i], a * a, 1e-9)))
    return out
'''
SAMEDIM = [('m', 'm'), ('km', 'm'), ('m', 'km'), ('mm', 'in'), ('kg', 'g'), ('g', 'lb'), ('h', 's'), ('J', 'erg'), ('eV', 'kJ'), ('km/h', 'm/s'),
           ('N*m', 'J'), ('kg*m2/s2', 'cal'), ('Pa', 'bar'), ('l', 'cm3'), ('deg', 'rad'), ('%', 'ppth'), ('dam', 'hm'), ('mol/l', 'mol/m3'),
           ('W', 'erg/s'), ('T', 'G'), ('m-1', 'Ka'), ('statC', 'Fr'), ('um2', 'ar'), ('C', 'A*s')]
PRODUCTS = [('km', 'm-1'), ('kg', 'g'), ('J', 'erg'), ('m', 's'), ('m', 'm'), ('km', 'h'), ('N', 'm'), ('kg*m/s2', 'm2'), ('m*s', 'm'), ('km2', 'mm-2'),
            ('W', 's'), ('%', 'm'), ('%', '%'), ('rad', 'm'), ('deg', 'rad'), ('Hz', 's'), ('kHz', 'ms'), ('g/cm3', 'l'), ('C', 'V'), ('m1:2', 'm1:2'),
            ('mol', '[N_A]'), ('eV', '[k_B]'), ('km*%', 'm-1'), ('ppth*kHz', 's'), ('kJ*[pi]', 'J-1'), ('%*h', 'Hz'), ('rad*km', 'mm-1'), ('dam2*ppth', 'cm-2'),
            # fractional exponents that cancel completely (the folded factor is a fractional power of the prefix)
            ('m1:2', 'cm1:2'), ('km1:2', 'm-1:2'), ('kJ1:3', 'erg1:3'), ('km3:2', 'm3:2'), ('cm-1:2', 'm-1:2'), ('kg1:2*m', 'g1:2*cm')]
NUMBER_UNITS = [('m', False), ('km/h', False), ('%', True), ('ppth', True), ('kg*m2/s2', False), ('[alpha]', True)]
MISMATCH = [('m', 's'), ('m', 'm2'), ('kg', 'N'), ('J', 'W'), ('m', 'rad'), ('Pa', 'N'), ('%', 'm'), ('Hz', 's'), ('m/s', 'm/s2'), ('C', 'A'), ('J', 'N'), ('m1:2', 'm')]
POW_UNITS = ['m', 'km', 'm3', 'kg*m2/s2', 'cm-1']


def scenarios(tier, seed):
    rnd = random.Random(seed)
    R2 = {'a': 'real', 'b': 'real'}
    S = []
    samedim, products = list(SAMEDIM), list(PRODUCTS)
    if tier != 'quick':
        from harness.c04 import prefixed_symbols, dimkey
        syms = prefixed_symbols()
        classes = {}
        for s in syms:
            classes.setdefault(dimkey(s), []).append(s)
        for _ in range(120):
            u = rnd.choice(syms)
            samedim.append((u, rnd.choice(classes[dimkey(u)])))
            products.append((rnd.choice(syms), rnd.choice(syms)))
    for ua, ub in samedim:
        S.append(Scenario(f'addsub/{ua}|{ub}', ADDSUB_SRC, R2, consts={'ua': ua, 'ub': ub}, preamble=PRE, what=f'sum/difference of {ua} and {ub}', samples=1))
    for ua, ub in products:
        S.append(Scenario(f'muldiv/{ua}|{ub}', MULDIV_SRC, R2, ['v.b != 0'], consts={'ua': ua, 'ub': ub}, preamble=PRE, what=f'product/quotient of {ua} and {ub}', samples=1))
    for u, nodim in NUMBER_UNITS:
        S.append(Scenario(f'number/{u}', NUMBER_SRC, {'a': 'real', 'c': 'real'}, ['v.c != 0', 'v.a != 0'], consts={'u': u, 'nodim': nodim}, preamble=PRE,
                          what=f'{u} quantity combined with a plain number on either side', samples=1))
    for u in ('m', 'km/s', 'kg*m2/s2', 'rad'):
        S.append(Scenario(f'number-and-dimensional/{u}', NUMDIM_SRC, {'a': 'real', 'c': 'real'}, consts={'u': u}, preamble=PRE, what=f'plain numbers (zero included) added to / subtracted from a quantity in {u}', samples=1))
    for ua, ub in MISMATCH:
        S.append(Scenario(f'mismatch/{ua}|{ub}', MISMATCH_SRC, R2, consts={'ua': ua, 'ub': ub}, preamble=PRE, what=f'adding {ua} and {ub} must be refused', samples=1))
    pun = POW_UNITS[:2] if tier == 'quick' else POW_UNITS
    for u in pun:
        for n in range(-3, 4):
            for d in (1, 2, 3, 4):
                if d > 1 and (n % d == 0):
                    continue
                S.append(Scenario(f'pow/{u}^{n}:{d}', POW_SRC, {'a': 'real'}, ['v.a > 0'] if d > 1 else ['v.a != 0'], consts={'u': u, 'n': n, 'd': d}, preamble=PRE,
                                  what=f'({u})**({n}/{d}) given as int/tuple/Fraction/float', samples=1))
    for ua, ub in [('km', 'm'), ('J', 'erg'), ('kg', 'g')]:
        S.append(Scenario(f'array/{ua}|{ub}', ARRAY_SRC, {'a': 'real', 'b': 'real', 'a2': 'real', 'b2': 'real'}, ['v.b != 0', 'v.b2 != 0'],
                          consts={'ua': ua, 'ub': ub}, preamble=PRE, what=f'array arithmetic {ua} with {ub}', samples=1))
    S.append(Scenario('numpy-left-operand', NPLEFT_SRC, {}, consts={'units': ['m', 'km/s', '%', None, '[c]']}, preamble=PRE, what='NumPy scalars and arrays on the left of * / + - (concrete)', samples=1))
    S.append(Scenario('canary/addsub', ADDSUB_SRC.replace('v.b * fb, 1e-9)), (\'a-b base\'', '2 * v.b * fb, 1e-9)), (\'a-b base\''), R2, consts={'ua': 'km', 'ub': 'm'}, preamble=PRE, canary=True))
    S.append(Scenario('canary/pow', POW_SRC.replace('[x * want for x in d]', '[x * want * 2 for x in d]'), {'a': 'real'}, ['v.a > 0'], consts={'u': 'm', 'n': 1, 'd': 2}, preamble=PRE, canary=True))
    return S


NT = 16


def tasks(tier, seed):
    return [{'id': f'c06-{i:02d}', 'tier': tier, 'seed': seed, 'slice': [i, NT]} for i in range(NT)]


def run_task(task):
    S = scenarios(task['tier'], task['seed'])
    i, k = task['slice']
    mine = S[i::k]
    res = run_scenarios([x for x in mine if x.key != 'numpy-left-operand'], unitkit.units_patches, timeout_ms=20000, seed=task['seed'], div_zero='fork')
    import contextlib
    res2 = run_scenarios([x for x in mine if x.key == 'numpy-left-operand'], contextlib.nullcontext, timeout_ms=20000, seed=task['seed'])      # concrete inputs on the unpatched library
    for key, val in res2.items():
        if key == 'stats':
            for kk, vv in val.items():
                res['stats'][kk] = res['stats'].get(kk, 0) + vv
        elif isinstance(val, list):
            res[key] = res.get(key, []) + val
        else:
            res[key] = res.get(key, 0) + val
    return res
