"""C12 - densities, volume and masses of matter are mutually consistent."""
import random

from vf.scen import Scenario, run_scenarios
from harness import matkit, unitkit

PROPERTY = 'C12'
ENCODED = ['scinumtools.materials.matter:Matter.__init__', 'scinumtools.materials.matter:Matter._norm', 'scinumtools.materials.matter:Matter.data_matter',
           'scinumtools.materials.composite:Composite._norm', 'scinumtools.materials.composite:Composite._data', 'scinumtools.materials.element:Element.__init__',
           'scinumtools.materials.element:Element._data', 'scinumtools.materials.substance:Substance.__init__', 'scinumtools.materials.material:Material.__init__']
EXPLANATION = ("The density (mass or number), the volume and the proportions are positive solver variables, given in several input units with the numeric value rescaled so "
               "the physical input is the same. The real Matter._norm / data_matter run on proxies; z3 proves rho = n*M_unit, mass = rho*V, sum rho_i = rho, sum M_i = mass, "
               "n_i = amount_i*n, N_i = n_i*V and that the outputs do not depend on the input units.")
ASSUMPTIONS = matkit.MAT_STUB_TEXT + ["a division by a term that may be zero forks; on the zero side the library's own ZeroDivisionError propagates and is reported (no denominator is assumed away)", "all inputs positive", "claims up to 1e-9 relative, posed abs-free to nlsat"]
OUTSIDE = ['binary64 rounding', 'more than 3 components']
BOUNDS = {'quick': 'element, substance (formula and dict), material (3 norm types) x {mass density, number density} x {with, without volume} x 3 input-unit choices; elements with counts (also [n], [p], [e]); add() of existing / new components; specific-volume densities; components with amount zero (concrete)',
          'thorough': 'same with more substances and unit choices'}
EXHAUSTIVE = {'quick': False, 'thorough': False}
PRE = "from scinumtools.materials import Element, Substance, Material, Norm\nfrom scinumtools.units import Quantity\n" + matkit.MAT_SRC + unitkit.REF_SRC + '''
NORMS = {'NUMBER_FRACTION': Norm.NUMBER_FRACTION, 'NUMBER': Norm.NUMBER, 'MASS_FRACTION': Norm.MASS_FRACTION}
DA_G = float(_US['Da'].magnitude)      # gram per dalton from the unit table
def build(v, O, dens_value, dens_unit, vol_value, vol_unit):
    kw = {}
    if v.mode == 'mass': kw['mass_density'] = Quantity(dens_value, dens_unit)
    else: kw['number_density'] = Quantity(dens_value, dens_unit)
    if vol_unit: kw['volume'] = Quantity(vol_value, vol_unit)
    if v.kind == 'element': return Element(v.spec.split('*')[0], proportion=(float(v.spec.split('*')[1]) if '.' in v.spec.split('*')[1] else int(v.spec.split('*')[1])) if '*' in v.spec else 1, natural=v.natural, **kw)
    if v.kind == 'substance': return Substance(v.spec, natural=v.natural, **kw)
    if v.kind == 'subdict': return Substance({s: n for s, n in zip(v.spec, (v.n1, v.n2, v.n3))}, natural=v.natural, **kw)
    return Material({s: n for s, n in zip(v.spec, (v.n1, v.n2, v.n3))}, natural=v.natural, norm_type=NORMS[v.norm], **kw)
'''
SPECVOL_SRC = '''
def run(v, O):
    # a mass density written as a specific volume (the units module converts between reciprocal dimensions)
    kw = {'volume': Quantity(v.V, 'l')}
    a = build_kind(v, Quantity(v.d, v.u_inv), kw)
    b = build_kind(v, Quantity(1 / (v.d * v.k), 'g/cm3'), kw)      # the same density in g/cm3: 1 / (d k), k = cm3/g per unit of u_inv
    out = [('rho from a specific volume', O.close(a.mass_density.value('g/cm3'), 1 / (v.d * v.k))), ('same number density', O.close(a.number_density.value('cm-3'), b.number_density.value('cm-3'))),
           ('same mass', O.close(a.mass.value('g'), b.mass.value('g')))]
    return out
def build_kind(v, rho, kw):
    if v.kind == 'element': return Element(v.spec, natural=True, mass_density=rho, **kw)
    if v.kind == 'substance': return Substance(v.spec, natural=True, mass_density=rho, **kw)
    return Material(v.spec, natural=True, mass_density=rho, **kw)
'''
ZERO_SRC = '''
def run(v, O):
    # a component whose amount is zero contributes nothing: its rows are zero and every other number equals that of the composite built without it
    kw = {('mass_density' if v.mode == 'mass' else 'number_density'): Quantity(v.d, v.u1), 'volume': Quantity(v.V, 'l')}
    def mk(amounts):
        if v.kind == 'subdict': return Substance(amounts, natural=True, **kw)
        if v.kind == 'material-text': return Material(' '.join(f'{O.lit(n) if not isinstance(n, (int, float)) else n} <{s}>' for s, n in amounts.items()), natural=True, norm_type=NORMS[v.norm], **kw)
        return Material(amounts, natural=True, norm_type=NORMS[v.norm], **kw)
    full = mk({v.spec[0]: v.n1, v.spec[1]: v.n2, v.spec[2]: v.zero})
    part = mk({v.spec[0]: v.n1, v.spec[1]: v.n2})
    df, dp = full.data_matter(quantity=False), part.data_matter(quantity=False)
    z = v.spec[2]
    out = [(f'{z} with amount zero: n, rho, N, M rows are zero', O.eq(df[z].n, 0) and O.eq(df[z].rho, 0) and O.eq(df[z].N, 0) and O.eq(df[z].M, 0))]
    out.append(('mass density as without the component', O.close(full.mass_density.value('g/cm3'), part.mass_density.value('g/cm3'))))
    out.append(('number density as without the component', O.close(full.number_density.value('cm-3'), part.number_density.value('cm-3'))))
    out.append(('total mass as without the component', O.close(full.mass.value('g'), part.mass.value('g'))))
    for k in v.spec[:2]:
        out.append((f'row {k}: n as without the component', O.close(df[k].n, dp[k].n)))
        out.append((f'row {k}: rho as without the component', O.close(df[k].rho, dp[k].rho)))
        out.append((f'row {k}: M as without the component', O.close(df[k].M, dp[k].M)))
    out.append(('rows rho add up to rho', O.close(sum(df[k].rho for k in v.spec), full.mass_density.value('g/cm3'))))
    return out
'''
ADD_SRC = '''
def run(v, O):
    out = []
    for step in (0, 1, 2):
        obj = build(v, O, v.d, v.u1, v.V, v.w1)
        if step >= 1: obj.add(v.existing, v.n1)      # tops up a component that is already there
        if step >= 2: obj.add(v.new, v.n2)           # a new component
        rho = obj.mass_density.value('g/cm3'); n = obj.number_density.value('cm-3')
        Munit = obj.composite_mass.value('g')
        dens_cgs = v.d * ref_units(v.u1)[0] / ref_units('g/cm3' if v.mode == 'mass' else 'cm-3')[0]
        out.append((f'step {step}: given density is reported unchanged', O.close(rho if v.mode == 'mass' else n, dens_cgs)))
        out.append((f'step {step}: rho = n * mass of one formula unit', O.close(rho, n * Munit)))
        dm = obj.data_matter(quantity=False)
        names = [k for k in dm.keys() if k not in ('avg', 'sum')]
        out.append((f'step {step}: sum of component mass densities = rho', O.close(sum(dm[k].rho for k in names), rho)))
        for k in names:
            out.append((f'step {step}: n[{k}] = amount * n', O.close(dm[k].n, obj.components[k].proportion * n)))
        Vcm3 = v.V * ref_units(v.w1)[0] / ref_units('cm3')[0]
        mass = obj.mass.value('g')
        out.append((f'step {step}: mass = rho * V', O.close(mass, rho * Vcm3)))
        out.append((f'step {step}: sum of component masses = mass', O.close(sum(dm[k].M for k in names), mass)))
    return out
'''
# input given in (density unit u1, volume unit w1); the same physical input re-expressed in (u2, w2)
SRC = '''
def run(v, O):
    f1 = ref_units(v.u1)[0]; f2 = ref_units(v.u2)[0]
    g1 = ref_units(v.w1)[0] if v.w1 else 1.0; g2 = ref_units(v.w2)[0] if v.w2 else 1.0
    obj = build(v, O, v.d, v.u1, v.V, v.w1)
    rho = obj.mass_density.value('g/cm3'); n = obj.number_density.value('cm-3')
    Munit = obj.composite_mass.value('g') if hasattr(obj.composite_mass, 'value') else obj.composite_mass * DA_G
    out = []
    dens_cgs = v.d * f1 / ref_units('g/cm3' if v.mode == 'mass' else 'cm-3')[0]
    out.append(('given density is reported unchanged', O.close(rho if v.mode == 'mass' else n, dens_cgs)))
    out.append(('rho = n * mass of one formula unit', O.close(rho, n * Munit)))
    dm = obj.data_matter(quantity=False)
    names = [k for k in dm.keys() if k not in ('avg', 'sum')]
    props = {k: obj.components[k].proportion for k in names} if hasattr(obj, 'components') else {names[0]: obj.proportion}
    cm = {k: obj.components[k].component_mass.value('g') for k in names} if hasattr(obj, 'components') else {names[0]: obj.component_mass.value('g')}
    for k in names:
        out.append((f'n[{k}] = amount * n', O.close(dm[k].n, props[k] * n)))
        out.append((f'rho[{k}] = amount * m * n', O.close(dm[k].rho, props[k] * cm[k] * n)))
    if hasattr(obj, 'components'):
        out.append(('sum of component mass densities = rho', O.close(dm['sum'].rho, rho)))
    out.append(('rows rho add up to rho', O.close(sum(dm[k].rho for k in names), rho)))
    if v.w1:
        Vcm3 = v.V * g1 / ref_units('cm3')[0]
        mass = obj.mass.value('g')
        out.append(('mass = rho * V', O.close(mass, rho * Vcm3)))
        for k in names:
            out.append((f'N[{k}] = n_i * V', O.close(dm[k].N, dm[k].n * Vcm3)))
            out.append((f'M[{k}] = rho_i * V', O.close(dm[k].M, dm[k].rho * Vcm3)))
        if hasattr(obj, 'components'):
            out.append(('sum of component masses = mass', O.close(dm['sum'].M, mass)))
        out.append(('rows M add up to the total mass', O.close(sum(dm[k].M for k in names), mass)))
    # same physical input in other units
    obj2 = build(v, O, v.d * f1 / f2, v.u2, v.V * g1 / g2, v.w2)
    out.append(('unit independence: rho', O.close(obj2.mass_density.value('g/cm3'), rho)))
    out.append(('unit independence: n', O.close(obj2.number_density.value('cm-3'), n)))
    dm2 = obj2.data_matter(quantity=False)
    for k in names:
        out.append((f'unit independence: n[{k}]', O.close(dm2[k].n, dm[k].n)))
        out.append((f'unit independence: rho[{k}]', O.close(dm2[k].rho, dm[k].rho)))
    if v.w1:
        out.append(('unit independence: mass', O.close(obj2.mass.value('g'), obj.mass.value('g'))))
        for k in names:
            out.append((f'unit independence: M[{k}]', O.close(dm2[k].M, dm[k].M)))
    return out
'''
MASS_UNITS = [('g/cm3', 'kg/m3'), ('kg/m3', 'kg/l'), ('kg/l', 'g/cm3'), ('g/l', 'lb/ft3')]
NUM_UNITS = [('cm-3', 'm-3'), ('m-3', 'cm-3'), ('l-1', 'mm-3')]
VOL_UNITS = [('l', 'cm3'), ('cm3', 'm3'), ('m3', 'l'), ('ml', 'gal')]


def scenarios(tier, seed):
    rnd = random.Random(seed)
    S = []
    objs = [('element', 'B', None), ('element', 'O{17-2}', None), ('element', 'O*2', None), ('element', 'Fe{56}*3', None), ('element', 'O*0.5', None), ('element', 'C*0.25', None), ('element', '[n]*2', None), ('element', '[p]*3', None), ('element', '[e]*0.5', None), ('element', '[n]', None), ('substance', 'H2O', None), ('substance', 'Ca(OH)2', None),
            ('subdict', ['H', 'O'], None), ('material', ['H2O', 'CO2'], 'NUMBER_FRACTION'), ('material', ['N2', 'O2', 'Ar'], 'NUMBER'),
            ('material', ['H2O', 'NaCl'], 'MASS_FRACTION'), ('material', ['Fe2O3'], 'NUMBER_FRACTION')]
    if tier != 'quick':
        objs += [('element', 'U{238}', None), ('substance', 'C2H6O', None), ('subdict', ['Na{+}', 'Cl{-}', 'O'], None), ('material', ['CH4', 'O2', 'He'], 'MASS_FRACTION'),
                 ('material', ['SiO2', 'Fe2O3'], 'NUMBER'), ('substance', '[p]2[n]2', None)]
    i = 0
    for kind, spec, norm in objs:
        for mode in ('mass', 'number'):
            for vol in (False, True):
                i += 1
                u1, u2 = (MASS_UNITS if mode == 'mass' else NUM_UNITS)[i % 3]
                w1, w2 = VOL_UNITS[i % 4] if vol else (None, None)
                inp = {'d': 'real', 'V': 'real'}
                pre = ['v.d > 0', 'v.V > 0']
                ncomp = len(spec) if isinstance(spec, list) else 0
                if kind in ('subdict', 'material'):
                    for j in range(3):
                        inp[f'n{j + 1}'] = 'real'
                        pre.append(f'v.n{j + 1} > 0')
                S.append(Scenario(f'{kind}/{spec if isinstance(spec, str) else "+".join(spec)}/{norm}/{mode}/{"vol" if vol else "novol"}', SRC, inp, pre,
                                  consts={'kind': kind, 'spec': spec, 'norm': norm, 'mode': mode, 'natural': i % 2 == 0, 'u1': u1, 'u2': u2, 'w1': w1, 'w2': w2},
                                  preamble=PRE, what=f'{kind} {spec} with {mode} density in {u1}' + (f' and volume in {w1}' if vol else ''), samples=1))
    for j, (kind, spec, norm, existing, new) in enumerate([('substance', 'H2O', None, 'O', 'C'), ('material', ['H2O', 'NaCl'], 'NUMBER_FRACTION', 'H2O', 'CO2'),
                                                          ('subdict', ['H', 'O'], None, 'H', 'N'), ('material', ['N2', 'O2', 'Ar'], 'NUMBER', 'Ar', 'He')]):
        for mode in ('mass', 'number'):
            u1 = {'mass': 'kg/m3', 'number': 'm-3'}[mode]
            inp = {'d': 'real', 'V': 'real', 'n1': 'real', 'n2': 'real', 'n3': 'real'}
            S.append(Scenario(f'add/{kind}/{j}/{mode}', ADD_SRC, inp, ['v.d > 0', 'v.V > 0', 'v.n1 > 0', 'v.n2 > 0', 'v.n3 > 0'],
                              consts={'kind': kind, 'spec': spec, 'norm': norm, 'mode': mode, 'natural': j % 2 == 0, 'u1': u1, 'w1': 'l', 'existing': existing, 'new': new},
                              preamble=PRE, what=f'{kind} {spec} with {mode} density, then add({existing}) and add({new})', samples=1))
    for kind, spec, norm in (('subdict', ['H', 'O', 'N'], None), ('material', ['H2O', 'NaCl', 'KCl'], 'NUMBER_FRACTION'), ('material', ['N2', 'O2', 'Ar'], 'NUMBER'), ('material-text', ['H2O', 'NaCl', 'KCl'], 'NUMBER_FRACTION')):
        for mode in ('mass', 'number'):
            for zero in (0, 0.0):
                # concrete amounts: the library's avg row divides by the amounts with NumPy (0/0 = nan there, an exception on proxies)
                S.append(Scenario(f'zero-amount/{kind}/{norm}/{mode}/{zero!r}', ZERO_SRC, {}, [],
                                  consts={'kind': kind, 'spec': spec, 'norm': norm, 'mode': mode, 'zero': zero, 'u1': {'mass': 'g/cm3', 'number': 'cm-3'}[mode], 'd': 0.8 if mode == 'mass' else 2.5e22, 'V': 2.0, 'n1': 0.7, 'n2': 0.3}, preamble=PRE,
                                  what=f'{kind} {spec} whose last component has the amount {zero!r} ({mode} density given; concrete)', samples=1))
    for kind, spec in (('element', 'B'), ('substance', 'H2O'), ('material', {'H2O': 1, 'NaCl': 2})):
        for u_inv, k in (('cm3/g', 1.0), ('l/kg', 1.0), ('m3/kg', 1000.0)):
            S.append(Scenario(f'specific-volume/{kind}/{u_inv}', SPECVOL_SRC, {'d': 'real', 'V': 'real'}, ['v.d > 0', 'v.V > 0'], consts={'kind': kind, 'spec': spec, 'u_inv': u_inv, 'k': k}, preamble=PRE,
                              what=f'{kind} with the mass density given as a specific volume in {u_inv}', samples=1))
    S.append(Scenario('canary/mass', SRC.replace("O.close(mass, rho * Vcm3)", "O.close(mass, 1.001 * rho * Vcm3)"), {'d': 'real', 'V': 'real'}, ['v.d > 0', 'v.V > 0'],
                      consts={'kind': 'substance', 'spec': 'H2O', 'norm': None, 'mode': 'mass', 'natural': True, 'u1': 'kg/m3', 'u2': 'g/cm3', 'w1': 'l', 'w2': 'cm3'}, preamble=PRE, canary=True))
    return S


NT = 16


def tasks(tier, seed):
    return [{'id': f'c12-{i:02d}', 'tier': tier, 'seed': seed, 'slice': [i, NT]} for i in range(NT)]


def run_task(task):
    S = scenarios(task['tier'], task['seed'])
    i, k = task['slice']
    return run_scenarios(S[i::k], matkit.mat_patches, timeout_ms=30000, seed=task['seed'], wall_s=300, div_zero='fork')
