"""C17 - references deliver the referenced node's current value and unit."""
import os

from symx import stubs
from vf.scen import Scenario, run_scenarios
from harness import dipkit, unitkit

PROPERTY = 'C17'
ENCODED = ['scinumtools.dip.environment:Environment.request', 'scinumtools.dip.lists.list_nodes:NodeList.query', 'scinumtools.dip.nodes.node_base:BaseNode.inject_value',
           'scinumtools.dip.nodes.node_base:BaseNode.slice_value', 'scinumtools.dip.nodes.node_base:BaseNode.modify_value', 'scinumtools.dip.nodes.node_import:ImportNode.parse',
           'scinumtools.dip.nodes.node_source:SourceNode.parse', 'scinumtools.dip.dip:DIP.parse', 'scinumtools.dip.environment:Environment.copy']
EXPLANATION = ("Values of the referenced nodes and of their later modifications are solver variables. Programs define a small tree, then inject ({?path}, {source?path}) or import "
               "({?path.*}, {?path}, {?*}) from it - locally, from a second file written to a scratch directory, or on top of a previously parsed base environment - with the host "
               "unit stated, omitted or in another prefix, before and after modifications of the source. z3 proves the host value term equals the CURRENT source value term under the "
               "unit rule (host keeps its own unit, adopts the source's when it states none, then the usual conversion into the host's definition unit), that imported nodes carry equal "
               "terms, types, units and constraints, and that the base environment's data is unchanged. Requests selecting 0 or 2 nodes must raise; an empty import must raise or add nothing readable.")
ASSUMPTIONS = dipkit.DIP_STUB_TEXT + ["name `str` in dip.nodes.node_base renders a proxy as a fresh sentinel numeral (the library turns current values back into raw text)",
                                      "slices are applied to concrete arrays/strings (Python slicing is not the subject of a solver)"]
OUTSIDE = ['text-file sources ({source} without query)', 'importing units/sources through $unit {..} / $source {..}', 'trees with more than 6 nodes']
BOUNDS = {'quick': '14 injection programs x 3 host-unit choices, 6 import programs, 2 remote-source programs, 2 base-environment programs, 10 slice cases', 'thorough': 'same'}
EXHAUSTIVE = {'quick': True, 'thorough': True}
PRE = dipkit.DIP_SRC + unitkit.REF_SRC + '''
import os, tempfile
def subst(O, v, text):
    import re as _r
    return _r.sub(r'\\{(x[0-9]|k[0-9])\\}', lambda m: O.lit(getattr(v, m.group(1))), text)
def f(u):
    return ref_units(u)[0]
'''
# Each injection program: (label, text with {x1}.. placeholders, [(path, expected value expression as python source over v and f(), expected unit)])
INJ = [
    ('plain injection adopts the unit of the source', 'a float = {x1} cm\nb float = {?a}', [('b', 'v.x1', 'cm')]),
    ('host states another unit: value kept, unit replaced', 'a float = {x1} cm\nb float = {?a} m', [('b', 'v.x1', 'm')]),
    ('injection after a modification sees the current value', 'a float = {x1} m\na = {x2} m\nb float = {?a}', [('a', 'v.x2', 'm'), ('b', 'v.x2', 'm')]),
    ('injection after a modification in another prefix', 'a float = {x1} m\na = {x2} cm\nb float = {?a}', [('a', 'v.x2 * f("cm") / f("m")', 'm'), ('b', 'v.x2 * f("cm") / f("m")', 'm')]),
    ('two modifications then injection', 'a float = {x1} m\na = {x2} m\na = {x3} km\nb float = {?a} m', [('b', 'v.x3 * 1000', 'm')]),
    ('injection before a modification keeps the earlier value', 'a float = {x1} m\nb float = {?a}\na = {x2} m', [('a', 'v.x2', 'm'), ('b', 'v.x1', 'm')]),
    ('modification by injection converts into the definition unit', 'a float = {x1} cm\nb float = {?a} m\na = {?b}', [('b', 'v.x1', 'm'), ('a', 'v.x1 * 100', 'cm')]),
    ('host modified after the injection', 'a float = {x1} m\nb float = {?a}\nb = {x2} cm', [('b', 'v.x2 / 100', 'm')]),
    ('nested source path', 'box\n  size float = {x1} mm\n  size = {x2} mm\nc float = {?box.size}', [('c', 'v.x2', 'mm')]),
    ('int injection after modification', 'n int = {k1}\nn = {k2}\nm int = {?n}', [('m', 'v.k2', None)]),
    ('unit-less source, host with unit', 'a float = {x1}\na = {x2}\nb float = {?a} kg', [('b', 'v.x2', 'kg')]),
    ('chain of injections', 'a float = {x1} m\na = {x2} m\nb float = {?a}\nc float = {?b} cm', [('c', 'v.x2', 'cm')]),
    ('injection inside a selected case', 'a float = {x1} m\na = {x2} m\n@case true\n  b float = {?a}\n@end', [('b', 'v.x2', 'm')]),
    ('source defined by an expression that is exactly zero: the host still adopts its unit', 'x float = {x1} cm\na float = ("{?x} - {?x}") cm\nb float = {?a}', [('a', '0', 'cm'), ('b', '0', 'cm')]),
    ('zero-valued expression source, host modified later in another prefix', 'x float = {x1} cm\na float = ("{?x} - {?x}") cm\nc float = {?a}\nc = {x2} m', [('c', 'v.x2 * 100', 'cm')]),
    ('source defined by an expression, host without unit', 'x float = {x1} cm\na float = ("{?x} + {x2} mm") cm\nb float = {?a}', [('b', 'v.x1 + v.x2 / 10', 'cm')]),
    ('zero literal source', 'a float = 0 cm\nb float = {?a}', [('b', '0', 'cm')]),
    ('sliced injection, host modified afterwards', 's float[3] = [1.5,2.5,3.5] cm\nu float = {?s}[2] cm\nu = {x2} m', [('u', 'v.x2 * 100', 'cm')]),
    ('source modified inside a case', 'a float = {x1} m\n@case true\n  a = {x2} m\n@end\nb float = {?a}', [('b', 'v.x2', 'm')]),
]
INJ_SRC = '''
def run(v, O):
    env = dip_parse(subst(O, v, v.text))
    data = env.data(Format.TUPLE)
    out = []
    for path, expr, unit in v.expect:
        want = eval(expr, {'v': v, 'f': f})
        out.append((f'{path} present', O.same(path in data, True)))
        if path not in data: continue
        got = data[path]
        if unit:
            out.append((f'{path}: unit', O.same(isinstance(got, tuple) and got[1] == unit, True)))
            if isinstance(got, tuple): out.append((f'{path}: value is the current value of the source', O.eq(got[0], want, 1e-9)))
        else:
            out.append((f'{path}: value is the current value of the source', O.eq(got, want, 1e-9)))
    return out
'''
IMPORTS = [
    ('children import', 'ice\n  waffle str = "standard"\n  scoops\n    straw int = {k1}\n    choc float = {x1} g\n    choc = {x2} kg\nbowl\n  {?ice.scoops.*}',
     {'bowl.straw': 'v.k1', 'bowl.choc': ('v.x2 * 1000', 'g')}, ['ice.waffle', 'ice.scoops.straw', 'ice.scoops.choc', 'bowl.straw', 'bowl.choc']),
    ('single node import with a name', 'ice\n  waffle str = "standard"\n  n int = {k1}\n  n = {k2}\nplate {?ice.n}', {'plate.n': 'v.k2'}, ['ice.waffle', 'ice.n', 'plate.n']),
    ('import all', 'a float = {x1} m\na = {x2} m\nb int = {k1}\ncopy {?*}', {'copy.a': ('v.x2', 'm'), 'copy.b': 'v.k1'}, ['a', 'b', 'copy.a', 'copy.b']),
    ('imported node keeps its options', 'src\n  w float = {x1} m\n    = {x1} m\n    = {x2} m\ndst {?src.w}\ndst.w = {x2} m', {'dst.w': ('v.x2', 'm')}, ['src.w', 'dst.w']),
    ('import then modify the copy only', 'src\n  w float = {x1} m\ndst {?src.*}\ndst.w = {x2} cm', {'src.w': ('v.x1', 'm'), 'dst.w': ('v.x2 / 100', 'm')}, ['src.w', 'dst.w']),
    ('descendant names repeat the text of the prefix', 'box\n  toolbox\n    lid int = {k1}\n  sandbox\n    box.depth float = {x1} m\n  width int = {k2}\nshelf {?box.*}',
     {'shelf.toolbox.lid': 'v.k1', 'shelf.sandbox.box.depth': ('v.x1', 'm'), 'shelf.width': 'v.k2'},
     ['box.toolbox.lid', 'box.sandbox.box.depth', 'box.width', 'shelf.toolbox.lid', 'shelf.sandbox.box.depth', 'shelf.width']),
    ('nested prefix repeated in the path', 'a\n  a\n    a int = {k1}\n    b int = {k2}\nq {?a.a.*}\nr {?a.a.a}', {'q.a': 'v.k1', 'q.b': 'v.k2', 'r.a': 'v.k1'}, ['a.a.a', 'a.a.b', 'q.a', 'q.b', 'r.a']),
    ('siblings whose names start with the text of the imported path', 'box\n  x float = {x1} m\nbox2\n  y int = {k1}\nboxes\n  s int = {k2}\nbox_x float = {x2} cm\ng {?box.*}',
     {'g.x': ('v.x1', 'm'), 'box_x': ('v.x2', 'cm')}, ['box.x', 'box2.y', 'boxes.s', 'box_x', 'g.x']),
    ('single descendant selected although a sibling name extends the path', 'size\n  w float = {x1} m\nsizes int = {k1}\nq {?size.*}', {'q.w': ('v.x1', 'm')}, ['size.w', 'sizes', 'q.w']),
    ('import of a host that was defined by a sliced injection', 's float[3] = [1.5,2.5,3.5] m\nt float = {?s}[1] m\nw int = {k1}\ng {?t}', {'g.t': ('2.5', 'm'), 't': ('2.5', 'm')}, ['s', 't', 'w', 'g.t']),
    ('imported node was defined by a reference; the source changes later; the copy is referenced', 'a float = {x1} m\ng\n  b float = {?a}\na = {x2} m\nc {?g.*}\nd float = {?c.b}',
     {'g.b': ('v.x1', 'm'), 'c.b': ('v.x1', 'm'), 'd': ('v.x1', 'm')}, ['a', 'g.b', 'c.b', 'd']),
    ('imported node was defined by an expression; the operand changes later; the copy is referenced', 'a float = {x1} m\ng\n  b float = ("{?a} * 2") m\na = {x2} m\nc {?g.b}\nd float = {?c.b}',
     {'g.b': ('v.x1 * 2', 'm'), 'c.b': ('v.x1 * 2', 'm'), 'd': ('v.x1 * 2', 'm')}, ['a', 'g.b', 'c.b', 'd']),
    ('copy of a reference-defined node modified, then referenced', 'a float = {x1} m\ng\n  b float = {?a}\nc {?g.*}\nc.b = {x2} m\nd float = {?c.b}', {'c.b': ('v.x2', 'm'), 'd': ('v.x2', 'm'), 'g.b': ('v.x1', 'm')}, ['a', 'g.b', 'c.b', 'd']),
    ('import of a subtree with deeper levels', 'r\n  a\n    b float = {x1} s\n    b = {x2} ms\n    c\n      d int = {k1}\nq {?r.a.*}', {'q.b': ('v.x2 / 1000', 's'), 'q.c.d': 'v.k1'}, ['r.a.b', 'r.a.c.d', 'q.b', 'q.c.d']),
]
IMP_SRC = '''
def run(v, O):
    env = dip_parse(subst(O, v, v.text))
    data = env.data(Format.TUPLE)
    out = [('node paths', O.same(list(data.keys()), v.paths))]
    for path, want in v.expect.items():
        if path not in data: continue
        got = data[path]
        if isinstance(want, tuple):
            out.append((f'{path}: unit', O.same(isinstance(got, tuple) and got[1] == want[1], True)))
            if isinstance(got, tuple): out.append((f'{path}: value', O.eq(got[0], eval(want[0], {'v': v}), 1e-9)))
        else:
            out.append((f'{path}: value', O.eq(got, eval(want, {'v': v}), 1e-9)))
    return out
'''
BAD = [('an option added to an imported copy must not widen the original', 'mode int = 1\n  !options [1,2]\nc {?mode}\n  = 3\nmode = 3'), ('an option added to one import must not reach a second import', 'mode int = 1\n  !options [1,2]\na {?mode}\n  = 3\nb {?mode}\nb.mode = 3'),
       ('injection selecting no node', 'a float = 1 m\nb float = {?zz}'), ('injection selecting several nodes', 'g\n  a float = 1\n  b float = 2\nc float = {?g.*}'),
       ('injection of a whole subtree', 'g\n  a float = 1\n  b float = 2\nc float = {?*}'), ('import from an unknown source', 'k {nosuch?*}'),
       ('injection from an unknown source', 'a float = {nosuch?x}'), ('constraint of an imported node still enforced', 'src\n  w float = 1 m\n    = 1 m\n    = 2 m\ndst {?src.w}\ndst.w = 3 m')]
EMPTY_IMPORTS = ['a float = 1 m\nk {?zz.*}', 'a float = 1 m\nk {?zz}', 'g\n  a int = 1\nh\n  {?g.b.*}']
BAD_SRC = '''
def run(v, O):
    out = [(f'rejected: {label}', O.raises(lambda t=t: dip_parse(t))) for label, t in v.bad]
    for t in v.empty:
        r = outcome(lambda: dip_parse(t))
        if r[0] == 'ok':
            d = outcome(lambda: r[1].data(Format.TUPLE))
            out.append((f'empty import {t!r}: environment readable', O.same(d[0], 'ok')))
            if d[0] == 'ok':
                out.append((f'empty import {t!r}: nothing added', O.same(all(not k.startswith('k') and not k.startswith('h') for k in d[1]), True)))
    return out
'''
REMOTE_SRC = '''
def run(v, O):
    d = tempfile.mkdtemp(prefix='c17_')
    try:
        with open(os.path.join(d, 'second.dip'), 'w') as fh:
            fh.write(subst(O, v, 'p float = {x1} Pa\\np = {x2} kPa\\nbox\\n  n int = {k1}\\n  t float = {x3} s\\n'))
        text = subst(O, v, "$source sec = '" + os.path.join(d, 'second.dip') + "'\\nmine float = {sec?p}\\nother float = {sec?p} bar\\ncopy {sec?box.*}\\nall {sec?*}\\nmine2 float = {x1} Pa\\nmine2 = {sec?box.t}[:] \\n" if False else
                     "$source sec = '" + os.path.join(d, 'second.dip') + "'\\nmine float = {sec?p}\\nother float = {sec?p} bar\\ncopy {sec?box.*}\\nall {sec?*}\\n")
        env = dip_parse(text)
        data = env.data(Format.TUPLE)
        out = [('remote injection: current value and unit of the remote node', O.same(isinstance(data.get('mine'), tuple) and data['mine'][1] == 'Pa', True))]
        if isinstance(data.get('mine'), tuple): out.append(('remote injection: value', O.eq(data['mine'][0], v.x2 * 1000, 1e-9)))
        if isinstance(data.get('other'), tuple): out.append(('remote injection with own unit: value kept, unit replaced', O.and_(O.eq(data['other'][0], v.x2 * 1000, 1e-9), data['other'][1] == 'bar')))
        out.append(('remote children import', O.same([k for k in data if k.startswith('copy.')], ['copy.n', 'copy.t'])))
        if 'copy.n' in data: out.append(('remote import: int value', O.eq(data['copy.n'], v.k1)))
        if isinstance(data.get('copy.t'), tuple): out.append(('remote import: float value and unit', O.and_(O.eq(data['copy.t'][0], v.x3, 1e-9), data['copy.t'][1] == 's')))
        out.append(('remote import all', O.same([k for k in data if k.startswith('all.')], ['all.p', 'all.box.n', 'all.box.t'])))
        if isinstance(data.get('all.p'), tuple): out.append(('remote import all: current value', O.eq(data['all.p'][0], v.x2 * 1000, 1e-9)))
        return out
    finally:
        import shutil
        shutil.rmtree(d, ignore_errors=True)
'''
REMOTE2_SRC = '''
def run(v, O):
    # remote nodes that were themselves defined by a reference or an expression
    d = tempfile.mkdtemp(prefix='c17_')
    try:
        with open(os.path.join(d, 'second.dip'), 'w') as fh:
            fh.write(subst(O, v, 'x float = {x1} m\\ny float = {?x}\\ny = {x2} m\\nz float = ("{?x} * 2") m\\nk int = {k1}\\nj int = {?k}\\n'))
        text = "$source sec = '" + os.path.join(d, 'second.dip') + "'\\none {sec?y}\\ntwo {sec?z}\\nall {sec?*}\\nq float = {?all.y}\\nr float = {?two.z}\\n"
        r = outcome(lambda: dip_parse(text).data(Format.TUPLE))
        out = [('remote import of reference/expression-defined nodes: parses', O.same(r[0], 'ok'))]
        if r[0] == 'ok':
            data = r[1]
            out.append(('node paths', O.same(sorted(data.keys()), sorted(['one.y', 'two.z', 'all.x', 'all.y', 'all.z', 'all.k', 'all.j', 'q', 'r']))))
            for path, want in (('one.y', v.x2), ('two.z', v.x1 * 2), ('all.y', v.x2), ('all.z', v.x1 * 2), ('q', v.x2), ('r', v.x1 * 2)):
                if isinstance(data.get(path), tuple):
                    out.append((f'{path}: value unchanged by the import', O.eq(data[path][0], want, 1e-9)))
            if 'all.j' in data: out.append(('all.j', O.eq(data['all.j'], v.k1)))
        return out
    finally:
        import shutil
        shutil.rmtree(d, ignore_errors=True)
'''
BASE_SRC = '''
def run(v, O):
    base = dip_parse(subst(O, v, '$unit len = {x3} cm\\nmpi\\n  nodes int = {k1}\\nsize float = {x1} m\\nsize = {x2} m'))
    before = base.data(Format.TUPLE)
    units_before = dict(base.units.units)
    env2 = dip_parse(subst(O, v, 'size = {x3} cm\\nmpi.nodes = {k2}\\nextra float = {?size}\\nw float = {x1} [len]\\n$unit tim = {x2} s'), base)
    after = base.data(Format.TUPLE)
    d2 = env2.data(Format.TUPLE)
    out = [('base environment: same parameters', O.same(list(after.keys()), list(before.keys())))]
    out.append(('base environment: size unchanged', O.eq(after['size'][0], v.x2)))
    out.append(('base environment: mpi.nodes unchanged', O.eq(after['mpi.nodes'], v.k1)))
    out.append(('base environment: units unchanged', O.same(sorted(base.units.units.keys()), sorted(units_before.keys()))))
    out.append(('second parse: modification on top of the base', O.eq(d2['size'][0], v.x3 / 100, 1e-9)))
    out.append(('second parse: injection sees the current value', O.eq(d2['extra'][0], v.x3 / 100, 1e-9)))
    out.append(('second parse: mpi.nodes', O.eq(d2['mpi.nodes'], v.k2)))
    return out
'''
BASE2_SRC = '''
def run(v, O):
    # a base environment that holds custom units but no nodes, and an entirely empty one
    out = []
    for label, text in (('units only', '$unit len = {x3} cm'), ('empty', '')):
        base = dip_parse(subst(O, v, text))
        units_before = sorted(base.units.units.keys())
        env2 = dip_parse(subst(O, v, 'a float = {x1} m\\ngrp\\n  w int = {k1}\\n$unit tim = {x2} s') + (subst(O, v, '\\nb float = {x2} [len]') if label == 'units only' else ''), base)
        d2 = env2.data(Format.TUPLE)
        out.append((f'{label}: base environment gained no parameters', O.same(list(base.data(Format.TUPLE).keys()), [])))
        out.append((f'{label}: base environment units unchanged', O.same(sorted(base.units.units.keys()), units_before)))
        out.append((f'{label}: second parse has its nodes', O.same(sorted(d2.keys()), sorted(['a', 'grp.w'] + (['b'] if label == 'units only' else [])))))
        out.append((f'{label}: a', O.eq(d2['a'][0], v.x1)))
        if label == 'units only':
            out.append((f'{label}: custom unit of the base usable', O.eq(d2['b'][0], v.x2)))
    return out
'''
FUNC_SRC = r'''
def run(v, O):
    # nodes whose value comes from a native function (add_function): imports and injections hand on the value the node has, the function is not run a second time
    from scinumtools.dip import DIP
    calls = []
    def fn_volume(data):
        calls.append(1)
        return data['side'].value ** 3
    def fn_flag(data):
        return data['side'].value > 2.5
    def fn_label(data):
        return 'edge-' + str(int(data['side'].value))
    def parse(text, base=None):
        with DIP(base) as p:
            _KEEP.append(p)
            p.add_function('fn_volume', fn_volume); p.add_function('fn_flag', fn_flag); p.add_function('fn_label', fn_label)
            p.add_string(text)
            return p.parse()
    out = []
    env1 = parse('side float = 2 cm\nbody\n  volume float = (fn_volume) cm3\n  big bool = (fn_flag)\n  label str = (fn_label)\nside = 3 cm\ncopy {?body.*}\nagain float = {?copy.volume}\nsmall float = {?copy.volume} mm3\n'
                 'one {?body.volume}\nflag bool = {?copy.big}\ntext str = {?copy.label}\nall\n  {?*}\nlast float = {?all.body.volume}')
    d = env1.data(Format.TUPLE)
    want = {'side': (3.0, 'cm'), 'body.volume': (8.0, 'cm3'), 'body.big': False, 'body.label': 'edge-2', 'copy.volume': (8.0, 'cm3'), 'copy.big': False, 'copy.label': 'edge-2', 'again': (8.0, 'cm3'), 'small': (8.0, 'mm3'),
            'one.volume': (8.0, 'cm3'), 'flag': False, 'text': 'edge-2', 'all.body.volume': (8.0, 'cm3'), 'all.copy.volume': (8.0, 'cm3'), 'all.side': (3.0, 'cm'), 'last': (8.0, 'cm3')}
    for k, w in want.items():
        out.append((f'function-valued nodes, one text: {k}', O.same(d.get(k), w)))
    env2 = parse('side = 5 cm\nspare {?body.volume}\ncheck float = {?spare.volume}\ndirect float = {?body.volume}\nfresh float = (fn_volume) cm3', env1)
    d2 = env2.data(Format.TUPLE)
    for k, w in {'spare.volume': (8.0, 'cm3'), 'check': (8.0, 'cm3'), 'direct': (8.0, 'cm3'), 'fresh': (125.0, 'cm3'), 'body.volume': (8.0, 'cm3'), 'side': (5.0, 'cm')}.items():
        out.append((f'function-valued nodes, on top of the parsed environment: {k}', O.same(d2.get(k), w)))
    out.append(('the base environment keeps its values', O.same(env1.data(Format.TUPLE).get('side'), (3.0, 'cm'))))
    return out
'''
SLICES = [('matrix element with a zero row index', 'm int[2,2] = [[1,2],[3,4]]\nx int = {?m}[0,1]', 'x', 2), ('3-d array: zero index, then index', 't int[2,2,2] = [[[1,2],[3,4]],[[5,6],[7,8]]]\nx int[2] = {?t}[0,1]', 'x', [3, 4]),
          ('matrix: zero row index, then range', 'm int[2,2] = [[1,2],[3,4]]\nx int[1] = {?m}[0,1:]', 'x', [2]), ('matrix element with a zero column index', 'm int[2,2] = [[1,2],[3,4]]\nx int = {?m}[1,0]', 'x', 3),
          ('matrix element zero zero', 'm float[2,2] = [[1.5,2],[3,4]] m\nx float = {?m}[0,0]', 'x', 1.5), ('3-d array: all indices zero', 't int[2,2,2] = [[[1,2],[3,4]],[[5,6],[7,8]]]\nx int = {?t}[0,0,0]', 'x', 1),
          ('3-d array: zero, range, zero', 't int[2,2,2] = [[[1,2],[3,4]],[[5,6],[7,8]]]\nx int[2] = {?t}[0,:,0]', 'x', [1, 3]), ('string slice', 'person str = "Will Smith"\nsurname str = {?person}[5:]', 'surname', 'Smith'), ('string slice front', 'p str = "Will Smith"\ns str = {?p}[:4]', 's', 'Will'),
          ('single array element', 'sizes float[3] = [34,23.34,1e34] cm\nmy float = {?sizes}[1]', 'my', 23.34), ('array range', 'a int[4] = [1,2,3,4]\nb int[2] = {?a}[1:3]', 'b', [2, 3]),
          ('matrix column', 'm float[2,2] = [[34,23.34],[1,1e34]] cm\nc float[2] = {?m}[:,1]', 'c', [23.34, 1e34]), ('matrix row', 'm int[2,2] = [[1,2],[3,4]]\nr int[2] = {?m}[1,:]', 'r', [3, 4]),
          ('matrix element', 'm int[2,2] = [[1,2],[3,4]]\ne int = {?m}[1,0]', 'e', 3), ('whole array', 'a int[3] = [1,2,3]\nb int[3] = {?a}', 'b', [1, 2, 3]),
          ('slice after modification', 'a int[3] = [1,2,3]\na = [7,8,9]\nb int = {?a}[2]', 'b', 9),
          ('sliced host modified afterwards (array)', 's float[4] = [1,2,3,4]\nt float[:] = {?s}[1:]\nt = [10,20,30]', 't', [10.0, 20.0, 30.0]),
          ('sliced host modified afterwards (string)', 'n str = "John Smith"\nm str = {?n}[5:]\nm = "Jane Doe"', 'm', 'Jane Doe'),
          ('sliced host imported afterwards', 's float[4] = [1,2,3,4]\nt float[:] = {?s}[1:]\ng {?t}', 'g.t', [2.0, 3.0, 4.0]),
          ('reference to a host that was defined by a matrix slice', 'm float[2,2] = [[1,2],[3,4]]\nc float[2] = {?m}[:,1]\nd float[2] = {?c}', 'd', [2.0, 4.0]),
          ('reference to a host that was defined by a string slice', 'p str = "Will Smith"\ns str = {?p}[:4]\nq str = {?s}', 'q', 'Will'),
          ('reference to a host that was defined by a matrix element', 'm float[2,2] = [[1,2],[3,4]]\ne float = {?m}[1,0]\nf float = {?e}', 'f', 3.0),
          ('host defined by a matrix slice, modified afterwards', 'm float[2,2] = [[1,2],[3,4]]\nc float[2] = {?m}[:,1]\nc = [7,8]', 'c', [7.0, 8.0]),
          ('modification by a sliced injection', 's float[3] = [1,2,3]\na float = 1\na = {?s}[1]', 'a', 2.0),
          ('string array slice then element', 'n str[3] = ["a","b","c"]\nm str[2] = {?n}[1:]\nk str = {?m}[0]', 'k', 'b'),
          ('bool array element handed on', 'b bool[3] = [true,false,true]\nc bool = {?b}[1]\nd bool = {?c}', 'd', False),
          ('boolean source modified, then referenced', 'flag bool = true\nflag = false\nb bool = {?flag}', 'b', False),
          ('boolean source re-defined with its type, then referenced', 'flag bool = false\nflag bool = true\nb bool = {?flag}', 'b', True),
          ('modified boolean as a case condition', 'flag bool = true\nflag = false\n@case {?flag}\n  x int = 1\n@else\n  x int = 2\n@end', 'x', 2),
          ('int source modified in another prefix, then referenced', 'n int = 5 m\nn = 7000 mm\nk int = {?n}', 'k', 7),
          ('int source modified in a larger prefix, then referenced', 'n int = 5 m\nn = 7 km\nk int = {?n}', 'k', 7000),
          ('int source modified in another prefix, imported', 'g\n  n int = 5 m\n  n = 3 km\nc {?g.*}', 'c.n', 3000),
          ('float source modified to none, then referenced', 'a float = 1 m\na = none\nb float = {?a}', 'b', None),
          ('bool source modified to none, then referenced', 'f bool = true\nf = none\ng bool = {?f}', 'g', None),
          ('str source modified to none, then referenced', 's str = abc\ns = none\nt str = {?s}', 't', None),
          ('int source modified to none and back to a number, then referenced', 'k int = 3\nk = none\nk = 5\nj int = {?k}', 'j', 5),
          ('injection of the value of a slice that is injected again', 's float[4] = [1,2,3,4]\nt float[:] = {?s}[1:]\nu float = {?t}[0]', 'u', 2.0), ('string whole', 'p str = "abc"\nq str = {?p}', 'q', 'abc')]
SLICE_SRC = '''
import numpy as np
def run(v, O):
    out = []
    for label, text, path, want in v.cases:
        r = outcome(lambda: dip_parse(text).data(Format.VALUE))
        out.append((f'{label}: parses', O.same(r[0], 'ok')))
        if r[0] == 'ok':
            got = r[1].get(path)
            out.append((f'{label}: value', O.same(np.asarray(got).tolist() if isinstance(got, (list, np.ndarray)) else got, want)))
    return out
'''


class SentinelStr(stubs.builtins.str):
    pass


def _str_stub():
    """str() that renders a proxy as a fresh sentinel numeral (so the library can put a current value back into raw text)"""
    import builtins
    from symx import core

    class _M(type):
        def __instancecheck__(cls, o):
            return isinstance(o, builtins.str)

    class Str(builtins.str, metaclass=_M):
        def __new__(cls, x=''):
            if core.is_sym(x):
                for text, p in stubs.SENTINELS.items():
                    if p is x:
                        return text
                text = builtins.str(9001 + len(stubs.SENTINELS))
                stubs.sentinel(text, x)
                return text
            return builtins.str(x)
    return Str


def scenarios(tier, seed):
    S = []
    xs = {f'x{i}': 'real' for i in (1, 2, 3)}
    ks = {f'k{i}': 'int' for i in (1, 2)}
    inp = dict(xs)
    inp.update(ks)
    for j, (label, text, expect) in enumerate(INJ):
        S.append(Scenario(f'inject/{j}', INJ_SRC, inp, consts={'text': text, 'expect': expect}, preamble=PRE, what=label, samples=2))
    for j, (label, text, expect, paths) in enumerate(IMPORTS):
        S.append(Scenario(f'import/{j}', IMP_SRC, inp, consts={'text': text, 'expect': expect, 'paths': paths}, preamble=PRE, what=label, samples=2))
    S.append(Scenario('bad-requests', BAD_SRC, {}, consts={'bad': BAD, 'empty': EMPTY_IMPORTS}, preamble=PRE, what='requests selecting no node or several', samples=1))
    S.append(Scenario('remote-derived', REMOTE2_SRC, inp, consts={}, preamble=PRE, what='import of remote nodes that were defined by a reference or an expression', samples=1))
    S.append(Scenario('remote', REMOTE_SRC, inp, consts={}, preamble=PRE, what='second file through $source', samples=1))
    S.append(Scenario('base-env-without-nodes', BASE2_SRC, {'x1': 'real', 'x2': 'real', 'x3': 'real', 'k1': 'int'}, ['v.x3 > 0', 'v.x2 > 0'], consts={}, preamble=PRE, what='parse on top of a base environment that has no nodes', samples=2))
    S.append(Scenario('base-env', BASE_SRC, inp, ['v.x3 > 0', 'v.x2 > 0'], consts={}, preamble=PRE, what='parse on top of a base environment', samples=2))
    S.append(Scenario('function-valued', FUNC_SRC, {}, consts={}, preamble=PRE, what='imports and injections of nodes defined through add_function (concrete)', samples=1))
    S.append(Scenario('slices', SLICE_SRC, {}, consts={'cases': SLICES}, preamble=PRE, what='sliced injections (concrete)', samples=1))
    S.append(Scenario('canary/stale', INJ_SRC, inp, consts={'text': 'a float = {x1} m\na = {x2} m\nb float = {?a}', 'expect': [('b', 'v.x1', 'm')]}, preamble=PRE, canary=True))
    return S


NT = 14


def tasks(tier, seed):
    return [{'id': f'c17-{i:02d}', 'tier': tier, 'seed': seed, 'slice': [i, NT]} for i in range(NT)]


import contextlib


@contextlib.contextmanager
def patches():
    with dipkit.dip_patches():
        with stubs.patched([('scinumtools.dip.nodes.node_base', 'str', _str_stub())]):
            yield


def run_task(task):
    S = scenarios(task['tier'], task['seed'])
    i, k = task['slice']
    mine = S[i::k]
    res = run_scenarios([s for s in mine if s.inputs], patches, timeout_ms=20000, seed=task['seed'], wall_s=900, max_paths=5000)
    res2 = run_scenarios([s for s in mine if not s.inputs], contextlib.nullcontext, timeout_ms=20000, seed=task['seed'])
    for key, val in res2.items():
        if key == 'stats':
            for kk, vv in val.items():
                res['stats'][kk] = res['stats'].get(kk, 0) + vv
        elif isinstance(val, list):
            res[key] = res.get(key, []) + val
        else:
            res[key] = res.get(key, 0) + val
    return res
