"""C14 - the last assignment wins, in the units and type of the definition."""
import itertools
import random

from vf.scen import Scenario, run_scenarios
from harness import dipkit, unitkit

PROPERTY = 'C14'
ENCODED = ['scinumtools.dip.dip:DIP.parse', 'scinumtools.dip.nodes.node_base:BaseNode.modify_value', 'scinumtools.dip.nodes.node_base:BaseNode.set_value',
           'scinumtools.dip.nodes.node_base:BaseNode.cast_value', 'scinumtools.dip.nodes.node_float:FloatNode.set_value', 'scinumtools.dip.nodes.node_integer:IntegerNode.set_value',
           'scinumtools.dip.nodes.node_boolean:BooleanNode.set_value', 'scinumtools.dip.nodes.node_string:StringNode.set_value',
           'scinumtools.dip.datatypes.type_number:NumberType.convert', 'scinumtools.dip.nodes.node_constant:ConstantNode.parse', 'scinumtools.dip.nodes.node_mod:ModNode']
EXPLANATION = ("Every assigned numeric value is a solver variable (sentinel numerals in the DIP text), booleans are chosen between the literals true/false by a solver boolean; the real "
               "DIP.parse runs on the text. z3 proves that the single resulting parameter carries value v_last*F(u_last)/F(u_def) in the definition's unit and type for ALL values - the "
               "setters test truthiness of the value, which forks on v = 0, so the zero case is found by the solver, not by somebody thinking of it. Wrong data type, other dimension, "
               "!constant and an unset declaration must raise on every path.")
ASSUMPTIONS = dipkit.DIP_STUB_TEXT + ["numeric values are reals/integers of either sign; converted values are claimed up to 1e-9 relative"]
OUTSIDE = ['arrays and tables', 'integer nodes assigned in a unit that needs a non-integral conversion factor', 'references/expressions as assigned values (C17/C18)']
BOUNDS = {'quick': 'definition or declaration + 1..3 modifications (typed/untyped) x unit choices {none, same, other prefix, other unit, custom $unit} x 4 placements; float/int/bool/str; none literals',
          'thorough': 'all unit-choice sequences of length <= 3 for 4 definition units'}
EXHAUSTIVE = {'quick': False, 'thorough': False}
PRE = dipkit.DIP_SRC + unitkit.REF_SRC + '''
from scinumtools.dip.datatypes import FloatType, IntegerType, BooleanType, StringType
CUSTOM = {'[len]': 0.1, '[nrg]': 3e3}        # factor of the custom units in base units (10 cm, 3 J)
def factor(u):
    if u in CUSTOM: return CUSTOM[u]
    return ref_units(u)[0]
def place(lines, placement, name):
    """the same node at top level / under groups / with a dotted name"""
    if placement == 0:
        return [l.replace('NAME', name) for l in lines], name
    if placement == 1:
        return ['box'] + ['  ' + l.replace('NAME', name) for l in lines], 'box.' + name
    if placement == 2:
        return ['box', '    inner'] + ['        ' + l.replace('NAME', name) for l in lines], 'box.inner.' + name
    out = ['box', '  inner', '    ' + lines[0].replace('NAME', name)] + [l.replace('NAME', 'box.inner.' + name) for l in lines[1:]]
    return out, 'box.inner.' + name
'''
NUM_SRC = '''
def run(v, O):
    vals = [getattr(v, f'x{i}') for i in range(len(v.units))]
    lines = []
    first_unit = v.units[0]
    for i, (u, typed) in enumerate(zip(v.units, v.typed)):
        lit = O.lit(vals[i])
        if i == 0 and v.declare:
            lines.append(f'NAME {v.dtype}' + (f' {u}' if u else ''))
            continue
        if i == 0 and v.first_none:
            lit = 'none'
        if i > 0 and i == v.mid_none:
            lit = 'none'
        lines.append(f'NAME{" " + v.dtype if typed or i == 0 else ""} = {lit}' + (f' {u}' if u else ''))
        if i == 0 and v.props:
            lines += ['  !description "a node"', '  !tags ["x"]']
    lines, path = place(lines, v.placement, 'par')
    header = ['$unit len = 10 cm', '$unit nrg = 3 J'] if any(u in CUSTOM for u in v.units if u) else []
    env = dip_parse('\\n'.join(header + lines))
    data = env.data(Format.TUPLE)
    types = env.data(Format.TYPE)
    out = [('exactly one parameter', O.same(list(data.keys()), [path]))]
    if path not in data: return out
    last = len(vals) - 1
    ul = v.units[last] or first_unit
    want = vals[last] * (factor(ul) / factor(first_unit)) if first_unit else vals[last]
    if last == v.mid_none: want = None
    got = data[path]
    if first_unit:
        out.append(('result is (value, definition unit)', O.same(isinstance(got, tuple) and got[1] == first_unit, True)))
        if isinstance(got, tuple):
            out.append(('value is the last assignment in the definition unit', O.eq(got[0], want, 1e-9)))
    else:
        out.append(('value is the last assignment', O.eq(got, want, 1e-9) if want is not None else O.same(got, None)))
    out.append(('data type of the definition', O.same(type(types[path]).__name__, {'float': 'FloatType', 'int': 'IntegerType'}[v.dtype])))
    out.append(('unit of the definition', O.same(types[path].unit, first_unit)))
    return out
'''
ARR_SRC = '''
import numpy as np
def run(v, O):
    out = []
    for label, text, path, want, unit in v.cases:
        r = outcome(lambda: dip_parse(text).data(Format.TUPLE))
        out.append((f'{label}: parses', O.same(r[0], 'ok')))
        if r[0] != 'ok': continue
        got = r[1].get(path)
        val, u = (got if isinstance(got, tuple) else (got, None))
        out.append((f'{label}: unit of the definition', O.same(u, unit)))
        out.append((f'{label}: last assigned values in the definition unit', O.same(bool(np.allclose(np.asarray(val, dtype=float), np.asarray(want, dtype=float), rtol=1e-9)) if val is not None else False, True)))
    return out
'''
ARRAYS = [('float array re-assigned in a smaller prefix', 'a float[2] = [1,2] m\na = [3,4] cm', 'a', [0.03, 0.04], 'm'),
          ('float array re-assigned in a larger prefix (typed)', 'a float[2] = [1,2] m\na float[2] = [3,4] km', 'a', [3000.0, 4000.0], 'm'),
          ('float array re-assigned without unit', 'a float[3] = [1,2,3] J\na = [4,5,6]', 'a', [4.0, 5.0, 6.0], 'J'),
          ('int array re-assigned without unit', 'k int[3] = [1,2,3]\nk = [4,5,6]', 'k', [4, 5, 6], None),
          ('matrix re-assigned in another prefix', 'm float[2,2] = [[1,2],[3,4]] km\nm = [[5,6],[7,8]] m', 'm', [[0.005, 0.006], [0.007, 0.008]], 'km'),
          ('array re-assigned twice, last one wins', 'a float[2] = [1,2] m\na = [3,4] cm\na = [5,6] mm', 'a', [0.005, 0.006], 'm'),
          ('array with negative and zero entries in another unit', 'a float[3] = [1,2,3] s\na = [-1,0,2.5] ms', 'a', [-0.001, 0.0, 0.0025], 's'),
          ('array in a group, dotted modification', 'g\n  a float[2] = [1,2] kg\ng.a = [500,1500] g', 'g.a', [0.5, 1.5], 'kg')]
BOOLSTR_SRC = '''
def run(v, O):
    lits = []
    for i, val in enumerate(v.values):
        if val == 'B':      # a truth value chosen by the solver
            b = getattr(v, f'b{i}')
            lits.append(('true' if b else 'false', bool(b)))
        elif val == 'none':
            lits.append(('none', None))
        else:
            lits.append((repr(val), val))
    lines = [f'NAME {v.dtype} = {lits[0][0]}'] + [f'NAME{" " + v.dtype if t else ""} = {l[0]}' for l, t in zip(lits[1:], v.typed[1:])]
    lines, path = place(lines, v.placement, 'par')
    env = dip_parse('\\n'.join(lines))
    data = env.data(Format.TUPLE)
    out = [('exactly one parameter', O.same(list(data.keys()), [path]))]
    if path in data:
        out.append(('value is the last assignment', O.same(data[path], lits[-1][1])))
        out.append(('data type of the definition', O.same(type(env.data(Format.TYPE)[path]).__name__, {'bool': 'BooleanType', 'str': 'StringType'}[v.dtype])))
    return out
'''
REJECT_SRC = '''
def run(v, O):
    out = []
    for label, text in v.cases:
        text = subst(O, v, text)
        out.append((f'rejected: {label}', O.raises(lambda text=text: dip_parse(text))))
    for label, text in v.accepted:
        text = subst(O, v, text)
        r = outcome(lambda text=text: dip_parse(text).data(Format.TUPLE))
        out.append((f'accepted: {label}', O.same(r[0], 'ok')))
    return out
def subst(O, v, text):
    import re as _r
    return _r.sub(r'\\{(\\w+)\\}', lambda m: O.lit(getattr(v, m.group(1))), text)
'''
UNITSETS = {
    'm': {'same': 'm', 'prefix': 'cm', 'other': 'in', 'custom': '[len]', 'none': None},
    'km': {'same': 'km', 'prefix': 'mm', 'other': 'mi', 'custom': '[len]', 'none': None},
    'J': {'same': 'J', 'prefix': 'kJ', 'other': 'erg', 'custom': '[nrg]', 'none': None},
    'kg/m3': {'same': 'kg/m3', 'prefix': 'g/cm3', 'other': 'lb/ft3', 'none': None},
    None: {'none': None},
}


def scenarios(tier, seed):
    rnd = random.Random(seed)
    S = []
    n = 0
    for u0, choices in UNITSETS.items():
        keys = list(choices)
        seqs = []
        for k in (1, 2, 3):
            allseq = list(itertools.product(keys, repeat=k))
            seqs += allseq if (tier != 'quick' or k == 1) else rnd.sample(allseq, min(len(allseq), 6 if k == 2 else 5))
        for seq in seqs:
            for dtype in ('float', 'int'):
                if dtype == 'int' and (u0 is None) is False and any(c in ('prefix', 'other', 'custom') for c in seq):
                    continue      # integer nodes with a non-trivial conversion factor: outside the claim
                n += 1
                units = [u0] + [choices[c] for c in seq]
                typed = [True] + [bool((n + i) % 2) for i in range(len(seq))]
                declare = (n % 5 == 0)
                first_none = (n % 7 == 0) and not declare
                inp = {f'x{i}': ('real' if dtype == 'float' else 'int') for i in range(len(units))}
                S.append(Scenario(f'numeric/{dtype}/{u0}/{"-".join(seq)}/{n % 4}/{"decl" if declare else "none" if first_none else "def"}', NUM_SRC, inp,
                                  consts={'units': units, 'typed': typed, 'dtype': dtype, 'declare': declare, 'first_none': first_none, 'placement': n % 4, 'props': n % 3 == 0,
                                          'mid_none': (1 + n % (len(units) - 1)) if (len(units) > 1 and n % 4 == 1) else -1},
                                  preamble=PRE, what=f'{dtype} node defined in {u0}, then assigned in {units[1:]}', samples=2))
    for dtype, seqs in (('bool', [['B', 'B'], ['B', 'B', 'B'], ['none', 'B'], ['B', 'none']]),
                        ('str', [['x', ''], ['', 'y'], ['x', 'two words', ''], ['none', 'z'], ['x', 'none'], ['a', 'b', 'c'], ["it's", 'q']])):
        for j, values in enumerate(seqs):
            inp = {f'b{i}': 'bool' for i, val in enumerate(values) if val == 'B'}
            S.append(Scenario(f'{dtype}/{j}', BOOLSTR_SRC, inp, consts={'values': values, 'typed': [True] + [bool((j + i) % 2) for i in range(len(values) - 1)], 'dtype': dtype, 'placement': j % 4},
                              preamble=PRE, what=f'{dtype} node assigned {values}', samples=2))
    rejected = [('typed modification with another data type', 'a float = {x} m\na int = {k}'), ('typed modification str over int', 'a int = {k}\na str = "q"'),
                ('unit of another dimension', 'a float = {x} m\na = {y} s'), ('unit of another dimension (typed)', 'a float = {x} J\na float = {y} kg'),
                ('constant node modified', 'a float = {x} m\n  !constant\na = {y} m'), ('constant bool modified', 'b bool = true\n  !constant\nb = false'),
                ('constant node modified two levels deep', 'g\n  a int = {k}\n    !constant\ng.a = {k}'),
                ('declared node left without value', 'a float m'), ('declared bool left without value', 'g bool'), ('declared str left without value', 's str'),
                ('declared int left without value', 'k int'), ('declared bool under a group left without value', 'grp\n  flag bool\n  n int = {k}'),
                ('declared bool array left without value', 'flags bool[2]'), ('declared node among others left without value', 'b int = {k}\na float m\nc str = "x"'),
                ('nested declaration left without value', 'g\n  a float m\nb int = {k}'),
                ('constant node re-defined with its type keyword', 'a float = {x} m\n  !constant\na float = {y} m'), ('constant bool re-defined with its type keyword', 'b bool = true\n  !constant\nb bool = false'),
                ('constant nested node re-defined with its type keyword', 'g\n  a int = {k}\n    !constant\ng.a int = {k}'), ('constant str re-defined with its type keyword', 's str = x\n  !constant\ns str = y'),
                ('declared float then typed int assignment', 'a float m\na int = {k} km'), ('declared str then typed bool assignment', 'n str\nn bool = false'),
                ('declared int then typed float assignment', 'k int\nk float = {x}'), ('declared nested float then typed int assignment', 'g\n  a float m\ng.a int = {k} m'),
                ('declared float array then typed int array', 'v float[2] m\nv int[2] = [1,2]'), ('declared bool then typed int assignment', 'b bool\nb int = {k}'),
                ('constant node assigned none', 'a float = {x} m\n  !constant\na = none'), ('constant bool assigned none (typed)', 'b bool = true\n  !constant\nb bool = none'),
                ('constant nested int assigned none', 'g\n  k int = {k}\n    !constant\ng.k = none'), ('constant str assigned none', 's str = x\n  !constant\ns = none'),
                ('re-typed assignment of none', 'a int = {k}\na float = none'), ('re-typed assignment of none (bool over str)', 's str = x\ns bool = none'), ('re-typed assignment of none on a nested node', 'g\n  a float = {x} m\ng.a int = none'),
                ('re-typed assignment of none followed by a value', 'a int = {k}\na float = none\na = {k}'), ('declared node re-typed with none', 'a int\na str = none\na = {k}'),
                ('modification of an undefined node', 'a = {x} m'), ('unit on a boolean', 'b bool = true m'), ('bool assigned a number', 'b bool = {k}')]
    accepted = [('declaration then typed value of the same type in another prefix', 'a float m\na float = {x} km'), ('declaration then value', 'a float m\na = {x}'), ('declaration then value in another prefix', 'a float m\na = {x} cm'),
                ('declared str given the empty text', 'a str\na = ""'), ('declared str given the empty single-quoted text', "a str\na = ''"), ('defined str emptied', 'a str = "abc"\na = ""'),
                ('declared nested str given the empty text', 'g\n  a str\n  a = ""'), ('declared int given zero', 'k int\nk = 0'), ('declared float given zero in another prefix', 'a float m\na = 0 km'), ('declared bool given false', 'b bool\nb = false'),
                ('constant never modified', 'a float = {x} m\n  !constant\nb float = {y} m'), ('typed modification of the same type', 'a float = {x} m\na float = {y} m')]
    S.append(Scenario('arrays', ARR_SRC, {}, consts={'cases': ARRAYS}, preamble=PRE, what='array nodes assigned more than once (concrete)', samples=1))
    S.append(Scenario('reject', REJECT_SRC, {'x': 'real', 'y': 'real', 'k': 'int'}, consts={'cases': rejected, 'accepted': accepted}, preamble=PRE,
                      what='inputs that must make parsing fail / succeed', samples=2))
    S.append(Scenario('canary/value', NUM_SRC.replace('vals[last] * (factor(ul) / factor(first_unit))', 'vals[0] * (factor(ul) / factor(first_unit))'), {'x0': 'real', 'x1': 'real'},
                      consts={'units': ['m', 'cm'], 'typed': [True, False], 'dtype': 'float', 'declare': False, 'first_none': False, 'placement': 0, 'props': False, 'mid_none': -1}, preamble=PRE, canary=True))
    return S


NT = 16


def tasks(tier, seed):
    return [{'id': f'c14-{i:02d}', 'tier': tier, 'seed': seed, 'slice': [i, NT]} for i in range(NT)]


def run_task(task):
    S = scenarios(task['tier'], task['seed'])
    i, k = task['slice']
    mine = S[i::k]
    res = run_scenarios([sc for sc in mine if sc.inputs], dipkit.dip_patches, timeout_ms=20000, seed=task['seed'], wall_s=600, max_paths=5000)
    import contextlib
    res2 = run_scenarios([sc for sc in mine if not sc.inputs], contextlib.nullcontext, timeout_ms=20000, seed=task['seed'])     # concrete texts run on the unpatched library
    for key, val in res2.items():
        if key == 'stats':
            for kk, vv in val.items():
                res['stats'][kk] = res['stats'].get(kk, 0) + vv
        elif isinstance(val, list):
            res[key] = res.get(key, []) + val
        else:
            res[key] = res.get(key, 0) + val
    return res
