"""C03 - a unit expression means the product of its table entries."""
import contextlib
import fractions
import random
import time

import z3

from symx import core, stubs, symstr
from symx.core import Engine, SymInt, SymReal
from symx.symstr import SymStr
from vf.scen import Scenario, run_scenarios
from harness import unitkit

PROPERTY = 'C03'
ENCODED = ['scinumtools.units.unit_solver:AtomParser', 'scinumtools.units.unit_solver:Atom.__mul__', 'scinumtools.units.unit_solver:Atom.__truediv__',
           'scinumtools.units.unit_solver:UnitSolver', 'scinumtools.units.base_units:get_unit_base', 'scinumtools.units.base_units:BaseUnits.__init__',
           'scinumtools.units.fraction:Fraction.from_string', 'scinumtools.units.fraction:Fraction.rebase', 'scinumtools.units.dimensions:Dimensions.__add__',
           'scinumtools.units.quantity:Quantity.__init__', 'scinumtools.units.unit_environment:check_unique_symbols']
ENGINE = 'symx + crosshair'
EXPLANATION = ("(A) symbol resolution: the text in front of every table symbol is a positional symbolic string (characters are solver variables over printable ASCII); "
               "the real AtomParser runs on it (regexes through a backtracking matcher over the library's own patterns) and on every path z3 proves accepted <=> the string is in the "
               "finite language {admissible prefix + unit}, and that the returned unit id is the unique decomposition. (B) factor/dimension algebra: the magnitude column of the prefix "
               "and unit tables is replaced by positive solver variables and numeric factors by sentinels; compound expressions generated from a grammar are parsed by the real "
               "Quantity/BaseUnits and z3 proves the factor term equals the product of (prefix*unit)^exponent over the tree for ALL table values (a counterexample that vanishes for "
               "the actual table values is recorded as latent, not reported); dimension vectors, nodim and the text round trip are compared exactly. (X) CrossHair contracts over the real Fraction class show the field identities of + - * / neg with Fraction, tuple and int operands on cross-multiplied integers for unbounded symbolic ints.")
ASSUMPTIONS = unitkit.UNITS_STUB_TEXT + [
    "names `str` and `re` in scinumtools.units.unit_solver are symx stubs admitting positional symbolic strings (A only)",
    "symbolic characters range over printable ASCII without the solver's operator characters * / ( ), blanks, and the number/exponent characters 0-9 : + - . #",
    "pow with non-integer exponents is uninterpreted; the oracle writes (prefix*unit)^e exactly as the property states it",
]
OUTSIDE = ['Fraction.rebase normal form for arbitrary num/den (CrossHair realises at int(num/gcd), a float division; not decided)', 'symbolic text longer than 2 characters (3 thorough) in front of a symbol', 'foreign characters inserted inside or after a symbol (covered only by a concrete list)',
           'conversion INTO expressions with numeric factors']
BOUNDS = {'quick': 'A: every table symbol x prefix text length 0..2 x exponent suffix in {"", "2", "-1", "1:2"} (length 2 only with ""); B: 220 generated compound expressions',
          'thorough': 'A: prefix text length 0..3 for every symbol; B: 1500 expressions, every prefixed symbol occurs'}
EXHAUSTIVE = {'quick': False, 'thorough': False}
EXCL = "*/() 0123456789:+-.#"
REPLAY_A = '''import sys, warnings
warnings.filterwarnings('ignore')
from scinumtools.units.unit_solver import AtomParser
''' + unitkit.REF_SRC + '''
s, e = %r, %r
try:
    a = AtomParser(s + e); accepted = True; got = list(a.baseunits)[0]
except Exception as ex:
    accepted = False; got = repr(ex)
try:
    pre, base = ref_resolve(s); valid = True; want = (pre + ':' + base) if pre else base
except KeyError:
    valid = False; want = None
print('text', repr(s + e), 'accepted', accepted, got, '| in the language of the tables:', valid, want)
sys.exit(1 if (accepted != valid or (accepted and got != want)) else 0)
'''


def language():
    P, U = unitkit.tables()
    V = {}
    for u in U.keys():
        V[u] = ('', u)
        adm = U[u].prefixes
        pres = list(P.keys()) if adm is True else adm if isinstance(adm, list) else []
        for p in pres:
            assert p + u not in V, f"ambiguous symbol {p + u}"
            V[p + u] = (p, u)
    return V


def run_resolve(task):
    import scinumtools.units.unit_solver as US
    from scinumtools.units.unit_environment import check_unique_symbols
    out = {'shapes': 0, 'paths': 0, 'obligations': 0, 'discharged': 0, 'raised_paths': 0, 'nontrivial': 0, 'findings': [], 'inconclusive': [], 'samples': [],
           'canaries': 0, 'canaries_fired': 0}
    stats = core.Stats()
    check_unique_symbols()
    V = language()
    P, U = unitkit.tables()
    bases = list(U.keys())[task['slice'][0]::task['slice'][1]]
    maxn = 2 if task['tier'] == 'quick' else 3
    patches = [(US, 'str', symstr.Str), (US, 're', symstr.ReShim())]
    canary_left = 1 if task['slice'][0] == 0 else 0
    out['canaries'] += canary_left
    for base in bases:
        for n in range(0, maxn + 1):
            for E in (['', '2', '-1', '1:2'] if n <= 1 else ['']):
                if n == 3 and len(base) > 2:
                    continue
                out['shapes'] += 1
                eng = Engine(timeout_ms=20000, max_paths=50000, wall_s=900)
                chars = [SymInt(z3.Int(f'c{i}')) for i in range(n)]
                for c in chars:
                    eng.assume_global(c.t >= 33, c.t <= 126, *[c.t != ord(x) for x in EXCL])

                def fn():
                    return US.AtomParser(SymStr.mk(chars + list(base) + list(E)))
                cands = [v for v in V if len(v) == n + len(base) and v.endswith(base)]

                def member(words):
                    return z3.Or(*[z3.And(*[chars[i].t == ord(w[i]) for i in range(n)]) for w in words]) if words else z3.BoolVal(False)
                inV = member(cands) if n else z3.BoolVal(base in V)
                try:
                    with stubs.patched(patches):
                        for pc, res, exc in eng.explore(fn):
                            out['paths'] += 1
                            out['obligations'] += 1
                            if exc is None:
                                uid = list(res.baseunits)[0]
                                want = [w for w in cands if (V[w][0] + ':' + V[w][1] if V[w][0] else V[w][1]) == uid] if n else ([base] if uid == base else [])
                                claim = member(want) if n else z3.BoolVal(bool(want))
                                what = 'accepted'
                            else:
                                out['raised_paths'] += 1
                                claim = z3.Not(inV)
                                what = 'rejected'
                            r, m = eng.prove(pc, claim)
                            if r == 'unsat':
                                out['discharged'] += 1
                            elif r == 'sat':
                                s = ''.join(chr(core.model_value(m, c.t)) for c in chars) + base
                                out['discharged'] += 1
                                out['findings'].append({'key': f"resolve/{base}/{n}/{E}/{what}", 'what': f"AtomParser({s + E!r}) is {what} but the tables say otherwise",
                                                        'replay': REPLAY_A % (s, E), 'model': {'text': s + E}})
                            else:
                                out['inconclusive'].append(f"resolve/{base}/{n}/{E}: unknown")
                            if canary_left and n == 1 and exc is None and base == 'm':
                                # canary: with 'km' removed from the oracle language the accepted path for k must be refuted
                                bad_claim = member([w for w in want if w != 'km'])
                                if z3.is_true(z3.simplify(z3.And(*pc, z3.Not(bad_claim)))) or eng.prove(pc, bad_claim)[0] == 'sat':
                                    if uid == 'k:m':
                                        out['canaries_fired'] += 1
                                        canary_left = 0
                except core.BudgetExceeded as e:
                    out['inconclusive'].append(f"resolve/{base}/{n}: budget exceeded ({e})")
                except core.ProxyLeak as e:
                    out['inconclusive'].append(f"resolve/{base}/{n}: {e}")
                stats.add(eng.stats)
                out['nontrivial'] += 1
        if len(out['samples']) < 2:
            out['samples'].append({'harness': 'resolve', 'base': base, 'prefix_text': 'symbolic, length 0..%d' % maxn})
    out['stats'] = stats.as_dict()
    return out


# ---------------------------------------------------------------------------
# B: factor / dimension algebra over symbolic tables
# ---------------------------------------------------------------------------
PRE_B = "from scinumtools.units import Quantity, BaseUnits\nimport fractions as _fr\n" + unitkit.REF_SRC + '''
def render(O, v, t):
    k = t[0]
    if k == 'u':
        pre, base, e = t[1], t[2], _fr.Fraction(t[3])
        es = '' if e == 1 else (str(e.numerator) if e.denominator == 1 else f'{e.numerator}:{e.denominator}')
        return pre + base + es
    if k == 'n':
        return O.lit(getattr(v, t[1]))
    if k == 'par':
        return '(' + render(O, v, t[1]) + ')'
    a, b = render(O, v, t[1]), render(O, v, t[2])
    if t[2][0] in ('mul', 'div'):
        b = '(' + b + ')'
    return a + ('*' if k == 'mul' else '/') + b
def strip_numbers(t):
    """the same tree without numeric factors (what BaseUnits keeps)"""
    k = t[0]
    if k == 'n': return None
    if k == 'u': return t
    if k == 'par':
        x = strip_numbers(t[1]); return None if x is None else ('par', x)
    a, b = strip_numbers(t[1]), strip_numbers(t[2])
    if a is None and b is None: return None
    if b is None: return a
    if a is None: return b if k == 'mul' else ('div', ('u', '', 'PR', '0'), b)
    return (k, a, b)
def dims_of(t):
    k = t[0]
    if k == 'n': return [_fr.Fraction(0)] * 8
    if k == 'u': return [x * _fr.Fraction(t[3]) for x in ref_atom(t[1] + t[2])[1]]
    if k == 'par': return dims_of(t[1])
    a, b = dims_of(t[1]), dims_of(t[2])
    return [x + y if k == 'mul' else x - y for x, y in zip(a, b)]
'''
SRC_B = '''
def run(v, O):
    text = render(O, v, v.tree)
    q = Quantity(1, text)
    want_dims = dims_of(v.tree)
    out = []
    out.append(('factor = product of (prefix*unit)^exponent', O.eq(q.value() * q.baseunits.magnitude, v.F, None if O.symbolic else 1e-9)))
    out.append(('dimension vector', O.same(lib_dims(q) if any(want_dims) else [0] * 8, [x for x in want_dims] if any(want_dims) else [0] * 8)))
    out.append(('nodim flag', O.same(bool(q.baseunits.nodim), not any(want_dims))))
    if v.unit_text:
        bu = BaseUnits(v.unit_text)
        out.append(('BaseUnits factor', O.eq(bu.magnitude, v.FU, None if O.symbolic else 1e-9)))
        out.append(('BaseUnits dimension vector', O.same([(_fr.Fraction(*d) if isinstance(d, tuple) else _fr.Fraction(d)) for d in bu.dimensions.value()], want_dims)))
        if bu.expression:
            again = BaseUnits(bu.expression)
            out.append(('text round trip', O.same(again.value(), bu.value())))
            out.append(('text round trip expression', O.same(again.expression, bu.expression)))
    return out
'''
REJECT_SRC = '''
def run(v, O):
    return [('rejected: ' + t, O.raises(lambda t=t: Quantity(1, t))) for t in v.texts] + [('BaseUnits rejected: ' + t, O.raises(lambda t=t: BaseUnits(t))) for t in v.texts]
'''


USED = []


def gen_tree(rnd, pool, depth, names, nfac):
    r = rnd.random()
    if depth == 0 or r < 0.35:
        if nfac[0] > 0 and rnd.random() < 0.15:
            nfac[0] -= 1
            n = f'x{len(names) + 1}'
            names.append(n)
            return ('n', n)
        if USED and rnd.random() < 0.3:
            pre, base = rnd.choice(USED)          # the same symbol again, usually with another exponent (m3/m, s1:5*s1:2)
        else:
            pre, base = pool.pop() if pool else ('', 'm')
            USED.append((pre, base))
        e = rnd.choice(['1', '1', '1', '2', '-1', '3', '-2', '-3', '1/2', '-1/2', '3/2', '1/3', '1/4', '2/3', '1/12', '-5/12', '7/10', '1/5', '12', '-10'])
        return ('u', pre, base, e)
    if r < 0.5:
        return ('par', gen_tree(rnd, pool, depth - 1, names, nfac))
    op = 'mul' if r < 0.78 else 'div'
    return (op, gen_tree(rnd, pool, depth - 1, names, nfac), gen_tree(rnd, pool, depth - 1, names, nfac))


def flatten(t, sign=1, acc=None):
    """effective exponent per (prefix, unit) and per numeric factor: exponents add under *, subtract under /"""
    acc = acc if acc is not None else ({}, {})
    k = t[0]
    if k == 'n':
        acc[1][t[1]] = acc[1].get(t[1], 0) + sign
    elif k == 'u':
        key = (t[1], t[2])
        acc[0][key] = acc[0].get(key, 0) + sign * fractions.Fraction(t[3])
    elif k == 'par':
        flatten(t[1], sign, acc)
    else:
        flatten(t[1], sign, acc)
        flatten(t[2], sign if k == 'mul' else -sign, acc)
    return acc


def oracle_term(t, st, names_map):
    """z3 term of the factor: product over the units of (g_prefix * f_unit)^(effective exponent), numeric factors as variables"""
    units, nums = flatten(t)
    term = z3.RealVal(1)
    for (pre, base), e in units.items():
        if e == 0:
            continue
        b = st.f[base]
        if pre:
            b = st.g[pre] * b
        term = term * core.real_pow(b, e)
    for n, e in nums.items():
        term = term * core.real_pow(z3.Real(n), fractions.Fraction(e))
    return term


def oracle_value(t, vals, st):
    k = t[0]
    if k == 'n':
        return vals[t[1]]
    if k == 'u':
        base = st.actual_f[t[2]] * (st.actual_g[t[1]] if t[1] else 1.0)
        return base ** float(fractions.Fraction(t[3]))
    if k == 'par':
        return oracle_value(t[1], vals, st)
    a, b = oracle_value(t[1], vals, st), oracle_value(t[2], vals, st)
    return a * b if k == 'mul' else a / b


class LazyF:
    """scenario constant whose concrete value depends on the sampled numeric factors: resolved by the kit through callables"""


def scenarios_b(tier, seed):
    rnd = random.Random(seed)
    V = language()
    allsyms = [V[k] for k in V]
    rnd.shuffle(allsyms)
    st = unitkit.SymTables()
    S = []
    n = 220 if tier == 'quick' else 1500
    pool = list(allsyms)
    ns = {}
    exec(PRE_B, ns)
    for i in range(n):
        if len(pool) < 8:
            pool = list(allsyms)
            rnd.shuffle(pool)
        names = []
        del USED[:]
        t = gen_tree(rnd, pool, rnd.choice([1, 2, 2, 3]), names, [2])
        tu = ns['strip_numbers'](t)

        class _O:
            def lit(self, x):
                return x
        unit_text = ns['render'](_O(), None, tu) if tu is not None else ''
        sc = Scenario(f'algebra/{i}', SRC_B, {nm: 'real' for nm in names}, [f'v.{nm} > 0' for nm in names], consts={'tree': t, 'unit_text': unit_text, 'F': None, 'FU': None},
                      preamble=PRE_B, what=f'compound unit expression {t}', samples=1)
        sc.sym_consts = {'F': SymReal(oracle_term(t, st, names)), 'FU': SymReal(oracle_term(tu, st, names)) if tu is not None else None}
        sc.dyn_consts = {'F': (lambda vals, t=t: oracle_value(t, vals, st)), 'FU': (lambda vals, tu=tu: oracle_value(tu, vals, st) if tu is not None else None)}
        sc.concretise = [var == core._ratval(float(row_val)) for var, row_val in st.actual_pairs()]
        S.append(sc)
    # rejection of foreign / inadmissible symbols (concrete texts: the structure, not a value, is the input here)
    bad = ['xkm', 'foom', ':m', 'kkm', 'dat', 'mft', 'kin', 'Mmin', 'km*foo', 'm/qq', 'k', 'da', '(m', 'm)', 'm**2', 'kg*', '/s', 'daa', 'mm m', 'cday', 'kCel', 'uu', 'kB', 'mdB',
           'GNp', 'k[c]', 'm[pi]', 'krad', 'Mdeg', "k'", 'k%', 'mppth', 'cin', 'dft', 'kyd', 'mmi', 'hle', 'nu', 'kamu', 'MDa', 'doz', 'klb', 'mton', 'khp']
    S.append(Scenario('reject/list', REJECT_SRC, {}, consts={'texts': bad}, preamble=PRE_B, what='strings with foreign symbols or inadmissible prefixes', samples=1))
    c = Scenario('canary/algebra', SRC_B, {}, consts={'tree': ('mul', ('u', 'k', 'm', '2'), ('u', '', 's', '-1')), 'unit_text': 'km2*s-1', 'F': 1.0e6, 'FU': 1.0e6}, preamble=PRE_B, canary=True)
    c.sym_consts = {'F': SymReal(st.g['k'] * st.f['m'] * st.f['m'] / st.f['s']), 'FU': SymReal(st.g['k'] * st.f['m'] * st.f['m'] / st.f['s'])}
    S.append(c)
    return S, st


NT = 32


def tasks(tier, seed):
    return [{'id': f'c03-A-{i:02d}', 'tier': tier, 'seed': seed, 'slice': [i, 24], 'part': 'A'} for i in range(24)] + \
           [{'id': f'c03-B-{i:02d}', 'tier': tier, 'seed': seed, 'slice': [i, 8], 'part': 'B'} for i in range(8)] + \
           [{'id': 'c03-X-fraction', 'tier': tier, 'seed': seed, 'slice': [0, 1], 'part': 'X'}, {'id': 'c03-N-numbers', 'tier': tier, 'seed': seed, 'slice': [0, 1], 'part': 'N'}]


NUM_SRC = '''
def run(v, O):
    out = []
    for text in v.cases:
        q = Quantity(1, text)
        want, wdims, _ = ref_units(text)
        out.append((f'{text}: factor (number times table entries)', O.eq(q.value() * q.baseunits.magnitude, want, 1e-12)))
        out.append((f'{text}: dimension vector', O.same(lib_dims(q), wdims)))
    for text in v.bad:
        out.append((f'{text}: rejected', O.raises(lambda text=text: Quantity(1, text))))
    return out
'''
DOC_SRC = '''
import csv, re
def run(v, O):
    from scinumtools.units.settings import UNIT_PREFIXES, UNIT_STANDARD
    P = {k: p for k, p in UNIT_PREFIXES.items()}
    U = {k: u for k, u in UNIT_STANDARD.items()}
    out = []
    rows = list(csv.DictReader(open('/repo/docs/source/_static/tables/prefixes.csv')))
    out.append(('published prefix table lists the same symbols', O.same(sorted(r['Symbol'] for r in rows), sorted(P))))
    for r in rows:
        n = int(re.search(r'10\\^\\{(-?\\d+)\\}', r['Magnitude']).group(1))
        if r['Symbol'] in P:
            out.append((f"prefix {r['Symbol']} ({r['Name']}) = 10^{n} as published", O.eq(float(P[r['Symbol']].magnitude), 10.0 ** n, 1e-12)))
            out.append((f"prefix {r['Symbol']}: conversion factor of {r['Symbol']}m", O.eq(Quantity(1, r['Symbol'] + 'm').value('m'), 10.0 ** n, 1e-12)))
    rows = list(csv.DictReader(open('/repo/docs/source/_static/tables/unit_standard.csv')))
    for r in rows:
        sy = r['Symbol'].split(',')[0].strip()
        if sy not in U or not r['Prefixes'] or 'all' in r['Prefixes']:
            continue
        doc = sorted(x.strip()[:-len(sy)] for x in r['Prefixes'].split(',') if x.strip().endswith(sy))
        lib = sorted(U[sy].prefixes) if isinstance(U[sy].prefixes, (list, tuple)) else U[sy].prefixes
        out.append((f'unit {sy}: admitted prefixes as published', O.same(lib, doc)))
        if str(U[sy].definition) == r['Definition']:
            pass
    return out
'''
SYS_SRC = '''
def outcome(fn):
    try:
        return ('ok', fn())
    except Exception as e:
        return ('raised', type(e).__name__ + ': ' + str(e)[:80])
def run(v, O):
    # symbols of the unit systems (#S.., #C.., #A..) are table entries like any other: exponent suffixes, quotients and the rendered text
    from scinumtools.units.settings import QUANTITY_UNITS
    out = []
    syms = sorted(QUANTITY_UNITS)
    for k, sym in enumerate(syms):
        mag, dims = QUANTITY_UNITS[sym]
        for ex in (('', '2', '-1', '1:2', '3', '-3:2')[k % 6], ('', '2', '-1')[k % 3]):
            e = _fr.Fraction(ex.replace(':', '/')) if ex else _fr.Fraction(1)
            for text, f0, d0 in ((sym + ex, 1.0, [0] * 8), ('g/' + sym + ex, None, None)) if k % 4 == 0 else ((sym + ex, 1.0, [0] * 8),):
                r = outcome(lambda: Quantity(1, text))
                out.append((f'{text}: accepted', O.same(r[0], 'ok')))
                if r[0] != 'ok':
                    continue
                q = r[1]
                sgn = 1 if f0 is not None else -1
                want = float(mag) ** float(e * sgn)
                out.append((f'{text}: factor is the table entry raised to the exponent', O.eq(q.value() * q.baseunits.magnitude / want, 1.0, 1e-10)))
                wd = [_fr.Fraction(x) * e * sgn for x in dims]
                if f0 is None:
                    wd[1] += 1
                out.append((f'{text}: dimension vector', O.same(lib_dims(q), wd)))
                t2 = q.units()
                r2 = outcome(lambda: Quantity(1, t2))
                out.append((f'{text}: rendered text {t2} parses again', O.same(r2[0], 'ok')))
                if r2[0] == 'ok':
                    out.append((f'{text}: ... to the same units', O.same((lib_dims(r2[1]), r2[1].units()), (lib_dims(q), t2))))
                    out.append((f'{text}: ... with the same factor', O.eq(r2[1].baseunits.magnitude / q.baseunits.magnitude, 1.0, 1e-12)))
    return out
'''
HIST_SRC = '''
def outcome(fn):
    try:
        return ('ok', fn())
    except Exception as e:
        return ('raised', type(e).__name__ + ': ' + str(e)[:80])
def run(v, O):
    # a rejected string leaves nothing behind: the next valid string gets its own factor and dimensions, through every entry point
    from scinumtools.units import BaseUnits, Unit
    out = []
    for bad in v.bad:
        for good in v.good:
            want, wdims, _ = ref_units(good)
            r0 = outcome(lambda: Quantity(1, bad))
            out.append((f'{bad}: rejected', O.same(r0[0], 'raised')))
            r = outcome(lambda: Quantity(1, good))
            out.append((f'{good} after the rejected {bad}: accepted', O.same(r[0], 'ok')))
            if r[0] == 'ok':
                out.append((f'{good} after the rejected {bad}: factor', O.eq(r[1].value() * r[1].baseunits.magnitude / want, 1.0, 1e-12)))
                out.append((f'{good} after the rejected {bad}: dimension vector', O.same(lib_dims(r[1]), wdims)))
            outcome(lambda: BaseUnits(bad))
            r = outcome(lambda: BaseUnits(good))
            out.append((f'BaseUnits({good}) after the rejected {bad}: accepted', O.same(r[0], 'ok')))
            if r[0] == 'ok':
                out.append((f'BaseUnits({good}) after the rejected {bad}: factor', O.eq(r[1].magnitude / want, 1.0, 1e-12)))
            outcome(lambda: Quantity(1, 'm').to(bad))
            r = outcome(lambda: Quantity(1, good).value(good))
            out.append((f'value({good}) after to({bad}) was refused', O.same(r[0], 'ok') and O.eq(r[1], 1.0, 1e-12)))
    return out
'''
HIST_BAD = ['km*foo', 'J/kCel', '2*kg*xm', 'm/(s*baz2)', 'kg*m2/s2/qq', '(m*s', 'm*s)', 'm**2', 'kg*']
HIST_GOOD = ['s', 'km/s', 'kg*m2/s2', 'mm-1']
NUM_CASES = ['1e+3*m', 'km/(1e+2*s)', '6.02214076e+23*mol-1', '2.5e-3*km', '-2*m', '-2.5e-3*km', 'kg/(-4*s)', '-1*[c]2', '-2*-3*m', '1e3*g', '-0.5*cm2', '2.5*m/(4*s2)', '-3*J/(2*-6*mol)', '1e-3*kg*m2/s2', '0.5*[k_B]*K', '-1e2*%']
NUM_BAD = ['k m', 'm s-2', 'da g', 'kg*m s/K', 'k\tm2', 'M eV', '-m', '2**m', '--2*m', '2*', '*m']


def run_task(task):
    if task['part'] == 'A':
        return run_resolve(task)
    if task['part'] == 'N':
        from vf.scen import Scenario
        sc = Scenario('numeric-factors', NUM_SRC, {}, consts={'cases': NUM_CASES, 'bad': NUM_BAD}, preamble='from scinumtools.units import Quantity\n' + unitkit.REF_SRC, what='signed and exponent-form numeric factors inside unit expressions (concrete)', samples=1)
        doc = Scenario('published-tables', DOC_SRC, {}, consts={}, preamble='from scinumtools.units import Quantity\n', what='prefix table and admitted prefixes against the published CSV tables under docs/', samples=1)
        sysu = Scenario('system-symbols', SYS_SRC, {}, consts={}, preamble='from scinumtools.units import Quantity\nimport fractions as _fr\n' + unitkit.REF_SRC, what='symbols of the unit systems with exponent suffixes, in quotients, and their rendered text (concrete, whole table)', samples=1)
        hist = Scenario('after-rejection', HIST_SRC, {}, consts={'bad': HIST_BAD, 'good': HIST_GOOD}, preamble='from scinumtools.units import Quantity\n' + unitkit.REF_SRC, what='a valid unit string parsed right after a rejected one (Quantity, BaseUnits, to/value)', samples=1)
        return run_scenarios([sc, doc, sysu, hist], contextlib.nullcontext, timeout_ms=20000, seed=task['seed'])
    if task['part'] == 'X':
        from vf import xh
        return xh.to_task_result('harness_xh/c03_fraction.py', 'harness_xh.c03_fraction', 'C03', timeout=40 if task['tier'] == 'quick' else 120, jobs=4)
    S, st = scenarios_b(task['tier'], task['seed'])
    i, k = task['slice']

    @contextlib.contextmanager
    def cm():
        with unitkit.units_patches():
            with st:
                yield
    return run_scenarios(S[i::k], cm, timeout_ms=20000, seed=task['seed'], wall_s=900, background=lambda v: st.positivity())
