"""C18 - DIP expressions compute unit-aware results under the documented priorities."""
import contextlib
import random

from symx import stubs
from vf.scen import Scenario, run_scenarios
from harness import dipkit, unitkit

PROPERTY = 'C18'
ENCODED = ['scinumtools.dip.solvers.numerical_solver:NumericalSolver._parse_atom', 'scinumtools.dip.solvers.numerical_solver:NumericalSolver.solve',
           'scinumtools.dip.solvers.numerical_solver:CustomOperatorAdd.operate_binary', 'scinumtools.dip.solvers.numerical_solver:CustomOperatorSub.operate_binary',
           'scinumtools.dip.solvers.numerical_solver:CustomOperatorPowb.operate_args', 'scinumtools.dip.solvers.logical_solver:LogicalSolver._eval_node',
           'scinumtools.dip.solvers.logical_solver:LogicalSolver.solve', 'scinumtools.dip.solvers.logical_solver:CustomNot', 'scinumtools.dip.datatypes.type_number:NumberType._prepare',
           'scinumtools.dip.datatypes.type_number:NumberType.__eq__', 'scinumtools.dip.datatypes.type_number:NumberType.__le__', 'scinumtools.dip.solvers.template_solver:TemplateSolver.solve',
           'scinumtools.solver.solver:ExpressionSolver.solve', 'scinumtools.dip.nodes.node_float:FloatNode.parse']
EXPLANATION = ("Numerical: expression trees over blank-separated + - * /, parentheses and pow(x, k) are generated with every literal and every referenced node value a solver variable "
               "and operand units mixing prefixes, dimensions and a custom $unit; the real NumericalSolver (through DIP.parse) evaluates them and z3 proves the result in the requested "
               "unit equals the reference evaluator's base-value result (multiplication/division before addition/subtraction, left to right). Logical: comparisons, ~, !, ~!, && and || "
               "over numeric/boolean/string operands with symbolic numbers kept outside the 1e-6 tolerance band by precondition; z3 proves the truth value. Templates: the rendered text is "
               "compared with Python's format() on concrete values (formatting is C-level), covering each format class with width/precision and slices.")
ASSUMPTIONS = dipkit.DIP_STUB_TEXT + ["a division by a term that may be zero forks; on the zero side the library's own ZeroDivisionError propagates and is reported (no denominator is assumed away)", "function cases use concrete arguments (angles in deg/rad, lengths) and compare with Python's math functions at 1e-6 relative (the table value of deg is rounded)", "numerical operands are positive and denominators are subtraction-free; the result is claimed within 1e-9 of the magnitude scale (sum of the absolute additive terms), so cancellation of binary64 noise cannot raise an alarm",
                                      "numbers compared in the generated logical trees differ by more than 1e-3 relative or are exactly equal; the band families judge ==, !=, <=, >= for values within 0.9e-6 relative (must count as equal) and between 1.2e-6 and 1e-4 relative (must count as different; also for magnitudes between 1e-12 and 1e-7, where differences up to a factor of 1.5 are judged: the tolerance is relative only since fix 06bcf3b)",
                                      "inside the generated symbolic trees no functions occur; the documented functions are covered by the concrete 'functions' list"]
OUTSIDE = ['comparisons of an int node with a float node (the library refuses them)', 'comparisons between reciprocal dimensions (1 s == 1 Hz is true through the documented reciprocal conversion; not judged)', 'array operands', 'sign folding together with ** inside DIP numerical expressions', 'relative differences between 0.9e-6 and 1.2e-6 (the edge of the tolerance band)', 'strict < and > between quantities that are exactly equal after conversion (binary64 conversion noise decides; no tolerance is documented for them)']
BOUNDS = {'quick': '150 numerical trees (<= 4 operators), 80 logical trees (<= 4 operators), 24 tolerance-band families (|d| <= 9e-7 inside, 1.2e-6 .. 1e-4 outside), 112 concrete unit ties (literal-vs-literal included), 182 ordered pairs of units of different dimension that must not be added, 32 function cases, 34+ template cases', 'thorough': '900 numerical, 500 logical, 120 band families'}
EXHAUSTIVE = {'quick': False, 'thorough': False}
PRE = dipkit.DIP_SRC + unitkit.REF_SRC + '''
CUSTOM = {'[len]': 0.25}            # $unit len = 25 cm
def fac(u):
    if not u: return 1.0
    if u in CUSTOM: return CUSTOM[u]
    return ref_units(u)[0]
def rnd_operand(O, v, t):
    """text of an operand: literal with unit or reference to a node"""
    kind, name, unit = t
    if kind == 'lit':
        return O.lit(getattr(v, name)) + (f' {unit}' if unit else '')
    return '{?' + name + '}'
def render(O, v, t):
    k = t[0]
    if k in ('lit', 'ref'): return rnd_operand(O, v, t)
    if k == 'par': return '(' + render(O, v, t[1]) + ')'
    if k == 'pow': return 'pow(' + render(O, v, t[1]) + ', ' + str(t[2]) + ')'
    if k == 'fn': return t[1] + '(' + render(O, v, t[2]) + ')'
    if k == 'neg': return '-' + render(O, v, t[1])
    return render(O, v, t[2]) + ' ' + t[1] + ' ' + render(O, v, t[3])
def evalbase(O, v, t):
    """(value in base units, length exponent, magnitude scale) by the documented priorities: the tree is the documented parse.
    All inputs are positive; the scale adds where the value subtracts, so a claim relative to it is robust against cancellation."""
    k = t[0]
    if k in ('lit', 'ref'):
        x = getattr(v, t[1]) * fac(t[2])
        return x, (1 if t[2] in ('m', 'cm', 'km', 'in', '[len]') else 0), x
    if k == 'par': return evalbase(O, v, t[1])
    if k == 'pow':
        a, d, s = evalbase(O, v, t[1]); r = 1; rs = 1
        for _ in range(t[2]): r = r * a; rs = rs * s
        return r, d * t[2], rs
    a, da, sa = evalbase(O, v, t[2]); b, db, sb = evalbase(O, v, t[3])
    if t[1] == '+': return a + b, da, sa + sb
    if t[1] == '-': return a - b, da, sa + sb
    if t[1] == '*': return a * b, da + db, sa * sb
    if t[1] == '/': return a / b, da - db, sa / b        # denominators are subtraction-free (generator), so b > 0
'''
NUM_SRC = '''
def run(v, O):
    expr = render(O, v, v.tree)
    want, dim, scale = evalbase(O, v, v.tree)
    req = {0: None, 1: 'cm', 2: 'cm2', 3: 'dm3', -1: 'mm-1', -2: 'm-2', 4: 'm4', -3: 'm-3', -4: 'm-4'}[dim]
    if v.custom and v.reqcustom and dim == 1: req = '[len]'        # the result is requested in the custom unit itself
    lines = ['$unit len = 25 cm'] if v.custom else []
    for name, unit, mod in v.nodes:
        lines.append(f'{name} float = {O.lit(getattr(v, name + "_0"))}' + (f' {unit}' if unit else ''))
        if mod:
            lines.append(f'{name} = {O.lit(getattr(v, name))}' + (f' {unit}' if unit else ''))
        else:
            lines[-1] = f'{name} float = {O.lit(getattr(v, name))}' + (f' {unit}' if unit else '')
    lines.append(f'res float = ("{expr}")' + (f' {req}' if req else ''))
    env = dip_parse('\\n'.join(lines))
    got = env.data(Format.TUPLE)['res']
    val = got[0] if isinstance(got, tuple) else got
    return [('result in the requested unit equals the exact result', O.near(val * fac(req), want, 1e-9, scale)), ('requested unit kept', O.same(got[1] if isinstance(got, tuple) else None, req))]
'''
MIX_SRC = '''
def run(v, O):
    out = []
    for label, text in v.bad:
        out.append((f'rejected: {label}', O.raises(lambda text=text: dip_parse(text))))
    return out
'''
LOG_PRE = PRE + '''
def lrender(O, v, t):
    k = t[0]
    if k == 'cmp':
        return rnd_operand(O, v, t[2]) + ' ' + t[1] + ' ' + rnd_operand(O, v, t[3])
    if k == 'bool': return '{?' + t[1] + '}' if t[2] else ('true' if getattr(v, t[1]) else 'false')
    if k == 'not': return '~' + lrender(O, v, t[1])
    if k == 'def': return ('~!' if t[2] else '!') + '{?' + t[1] + '}'
    if k == 'par': return '(' + lrender(O, v, t[1]) + ')'
    return lrender(O, v, t[2]) + ' ' + t[1] + ' ' + lrender(O, v, t[3])
def base_of(v, t):
    return getattr(v, t[1]) * fac(t[2])
def leval(O, v, t, defined):
    k = t[0]
    if k == 'cmp':
        a, b = base_of(v, t[2]), base_of(v, t[3])
        return {'==': a == b, '!=': a != b, '<': a < b, '>': a > b, '<=': a <= b, '>=': a >= b}[t[1]]
    if k == 'bool': return O.truth(getattr(v, t[1]))
    if k == 'not':
        x = leval(O, v, t[1], defined)
        return not x
    if k == 'def':
        x = t[1] in defined
        return (not x) if t[2] else x
    if k == 'par': return leval(O, v, t[1], defined)
    a = leval(O, v, t[2], defined)
    if t[1] == '&&':
        return leval(O, v, t[3], defined) if a else False
    return True if a else leval(O, v, t[3], defined)
'''
LOG_SRC = '''
def run(v, O):
    expr = lrender(O, v, v.tree)
    lines = ['anchor int = 1']
    defined = ['anchor']
    for name, dtype, unit in v.nodes:
        if dtype == 'bool':
            lines.append(f'{name} bool = {"true" if getattr(v, name) else "false"}')
        else:
            lines.append(f'{name} {dtype} = {O.lit(getattr(v, name))}' + (f' {unit}' if unit else ''))
        defined.append(name)
    lines.append(f'res bool = ("{expr}")')
    env = dip_parse('\\n'.join(lines))
    got = env.data(Format.VALUE)['res']
    want = leval(O, v, v.tree, defined)
    return [('logical value', O.veq(O.truth(got) if not isinstance(got, bool) else got, bool(want) if not O.symbolic else want))]
'''
BAND_SRC = '''
def run(v, O):
    # a = b (1 + d 1e-7) after unit conversion; |d| <= 9 is inside the documented 1e-6 tolerance, |d| >= 12 outside
    fa, fb = fac(v.ua), fac(v.ub)
    a = v.b * (fb / fa) * (1 + v.d * 1e-7)
    A = O.lit(a) + (f' {v.ua}' if v.ua else '')
    B = O.lit(v.b) + (f' {v.ub}' if v.ub else '')
    lines = []
    if v.kinds[0] == 'ref':
        lines.append(f'n1 float = {A}'); A = '{?n1}'
    if v.kinds[1] == 'ref':
        lines.append(f'n2 float = {B}'); B = '{?n2}'
    for i, op in enumerate(v.ops):
        lines.append(f'r{i} bool = ("{A} {op} {B}")')
    env = dip_parse('\\n'.join(lines))
    data = env.data(Format.VALUE)
    out = []
    for i, op in enumerate(v.ops):
        got = data[f'r{i}']
        got = O.truth(got) if not isinstance(got, bool) else got
        if v.inside:
            want = {'==': True, '!=': False, '<=': True, '>=': True}[op]
            out.append((f'values equal within 1e-6 relative: {op}', O.veq(got, want)))
        else:
            want = {'==': False, '!=': True, '<=': v.d < 0, '>=': v.d > 0, '<': v.d < 0, '>': v.d > 0}[op]
            out.append((f'values apart by more than 1e-6 relative: {op}', O.veq(got, bool(want) if not O.symbolic else want)))
    return out
'''
TIES_SRC = '''
def run(v, O):
    out = []
    for head, expr, want in v.cases:
        r = outcome(lambda: bool(dip_parse(head + '\\nres bool = ("' + expr + '")').data(Format.VALUE)['res']))
        out.append((f'{head.splitlines()[0]} ; {expr}', O.same(r[0], 'raised') if want == 'refused' else O.same(r, ('ok', want))))
    return out
'''
FN_SRC = '''
def run(v, O):
    out = []
    for expr, unit, want in v.cases:
        text = v.head + f'r float = ("{expr}")' + (f' {unit}' if unit else '')
        r = outcome(lambda: dip_parse(text).data(Format.TUPLE)['r'])
        if want is None:
            out.append((f'{expr}: refused', O.same(r[0], 'raised')))
            continue
        out.append((f'{expr}: evaluates', O.same(r[0], 'ok')))
        if r[0] == 'ok':
            got = r[1]
            out.append((f'{expr}: unit', O.same(got[1] if isinstance(got, tuple) else None, unit)))
            out.append((f'{expr}: value', O.eq(got[0] if isinstance(got, tuple) else got, want, 1e-6)))
    return out
'''
TPL_SRC = '''
def run(v, O):
    out = []
    for label, head, tpl, want in v.cases:
        text = head + '\\nres str = ("' + tpl + '")'
        r = outcome(lambda: dip_parse(text).data(Format.VALUE)['res'])
        out.append((f'{label}: parses', O.same(r[0], 'ok')))
        if r[0] == 'ok':
            out.append((f'{label}: text', O.same(r[1], want)))
    return out
'''


class NG:
    """numerical expression trees typed by the exponent of length so that + and - always combine equal dimensions"""

    def __init__(self, rnd, custom):
        self.rnd = rnd
        self.nosub = 0
        self.names = []
        self.nodes = []
        self.custom = custom
        self.ops = 0

    def leaf(self, dim):
        units = {0: [None, None, '%'], 1: ['m', 'cm', 'km', 'in'] + (['[len]'] if self.custom else [])}[dim]
        unit = self.rnd.choice(units)
        if self.rnd.random() < 0.35:
            name = f'n{len(self.nodes) + 1}'
            self.nodes.append((name, unit, self.rnd.random() < 0.5))
            return ('ref', name, unit)
        name = f'x{len(self.names) + 1}'
        self.names.append(name)
        return ('lit', name, unit)

    def tree(self, dim, budget):
        r = self.rnd.random()
        if budget <= 0 or (r < 0.25 and abs(dim) <= 1 and dim >= 0):
            if dim in (0, 1):
                return self.leaf(dim)
        if dim not in (0, 1) or r < 0.6:
            # product / quotient
            if self.rnd.random() < 0.6:
                d1 = self.rnd.choice([d for d in (0, 1) if 0 <= dim - d <= 2] or [0])
                a, b = self.tree(d1, budget - 1), self.tree(dim - d1, budget - 1) if (dim - d1) in (0, 1, 2) else self.leaf(0)
                op = '*'
                t = ('bin', op, a, self.wrap(b))
            else:
                d2 = self.rnd.choice([0, 1])
                if dim + d2 > 2:
                    d2 = 0
                a = self.tree(dim + d2, budget - 1)
                self.nosub += 1
                b = self.tree(d2, budget - 1)
                self.nosub -= 1
                t = ('bin', '/', a, self.wrap(b))
            return t
        if r < 0.85:
            a, b = self.tree(dim, budget - 1), self.tree(dim, budget - 1)
            return ('bin', self.rnd.choice(['+', '-']) if not self.nosub else '+', self.wrapadd(a), self.wrap_term(b))
        if r < 0.93 and dim % 2 == 0 and dim > 0:
            return ('pow', self.tree(dim // 2, budget - 1), 2)
        return ('par', self.tree(dim, budget - 1))

    def wrap(self, t):
        # right operand of * or /: a sum/quotient chain must be parenthesised to keep the intended tree
        return ('par', t) if t[0] == 'bin' else t

    def wrapadd(self, t):
        return t

    def wrap_term(self, t):
        # right operand of + or -: another + or - chain must be parenthesised (left associativity)
        return ('par', t) if (t[0] == 'bin' and t[1] in '+-') else t


def fix_left(t):
    """left operand of * / that is a + - chain needs parentheses"""
    if t[0] == 'bin':
        a, b = fix_left(t[2]), fix_left(t[3])
        if t[1] in '*/' and a[0] == 'bin' and a[1] in '+-':
            a = ('par', a)
        return ('bin', t[1], a, b)
    if t[0] == 'par':
        return ('par', fix_left(t[1]))
    if t[0] == 'pow':
        return ('pow', fix_left(t[1]), t[2])
    return t


def lgen(rnd, depth, state):
    r = rnd.random()
    if depth == 0 or r < 0.4:
        kind = rnd.random()
        if kind < 0.6:
            op = rnd.choice(['==', '!=', '<', '>', '<=', '>='])
            dim = rnd.choice([0, 1])
            units = {0: [None], 1: ['m', 'cm', 'km']}[dim]
            ops = []
            kinds = rnd.choice([('ref', 'lit'), ('lit', 'ref'), ('ref', 'ref'), ('lit', 'lit')])     # two literals are compared as floats in the unit of the right one
            dt = rnd.choice(['float', 'float', 'int']) if dim == 0 and kinds != ('lit', 'lit') else 'float'
            for side in (0, 1):
                unit = rnd.choice(units)
                if kinds[side] == 'ref':
                    name = f'n{len(state["nodes"]) + 1}'
                    state['nodes'].append((name, dt, unit))
                    ops.append(('ref', name, unit))
                else:
                    name = f'x{len(state["lits"]) + 1}'
                    state['lits'].append(name)
                    ops.append(('lit', name, unit))
            state['cmps'].append((ops[0], ops[1]))
            return ('cmp', op, ops[0], ops[1])
        if kind < 0.85:
            name = f'b{len(state["bools"]) + 1}'
            state['bools'].append(name)
            asnode = rnd.random() < 0.6
            if asnode:
                state['nodes'].append((name, 'bool', None))
            return ('bool', name, asnode)
        name = rnd.choice([n for n, _, _ in state['nodes']] + ['missing1']) if state['nodes'] else 'missing1'
        return ('def', name, rnd.random() < 0.5)
    if r < 0.55:
        inner = lgen(rnd, depth - 1, state)
        return ('not', ('par', inner) if (inner[0] in ('bin', 'not') or (inner[0] == 'def' and inner[2])) else inner)
    if r < 0.65:
        return ('par', lgen(rnd, depth - 1, state))
    op = rnd.choice(['&&', '||'])
    a, b = lgen(rnd, depth - 1, state), lgen(rnd, depth - 1, state)
    # the stratified grammar: || chains of && chains; parenthesise a || inside an &&, and right-nested chains
    if op == '&&':
        a = ('par', a) if (a[0] == 'bin' and a[1] == '||') else a
        b = ('par', b) if b[0] == 'bin' else b
    else:
        b = ('par', b) if (b[0] == 'bin' and b[1] == '||') else b
    return ('bin', op, a, b)


TEMPLATES = [
    ('int zero padded', 'id int = 345', 'ID: {{?id}:05d}', 'ID: 00345'), ('string', "name str = 'Tina'", 'Name: {{?name}}', 'Name: Tina'),
    ('float scientific', 'w float = 62.3 kg', 'W: {{?w}:.3e}', 'W: 6.230e+01'), ('float fixed', 'h float = 177 cm', 'H: {{?h}:.2f}', 'H: 177.00'),
    ('bool', 'm bool = true', 'M: {{?m}}', 'M: True'), ('escaped brace stays text', 'm bool = true', 'x \\{not a reference} {{?m}}', 'x \\{not a reference} True'),
    ('float default', 'h float = 1.5', '{{?h}}', '1.5'), ('int default', 'k int = 7', '[{{?k}}]', '[7]'), ('width float', 'h float = 3.14159', '{{?h}:10.3f}|', '     3.142|'),
    ('int width', 'k int = 42', '{{?k}:6d}|', '    42|'), ('string slice', 'name str = "Will Smith"', '{{?name}[5:]}', 'Smith'), ('string format', 'name str = "ab"', '{{?name}:5s}|', 'ab   |'),
    ('array element formatted', 'w float[2,3] = [[23.4,235.4,34],[1e10,2e23,5e20]]', '{{?w}[1,1]:.2e}', '2.00e+23'), ('int binary', 'k int = 5', '{{?k}:b}', '101'),
    ('two references', 'a int = 1\nb int = 2', '{{?a}}+{{?b}}', '1+2'), ('nested path', 'g\n  a int = 3', 'v={{?g.a}:03d}', 'v=003'),
    ('after modification', 'a int = 1\na = 9', '{{?a}}', '9'), ('negative float', 'h float = -2.5', '{{?h}:.1f}', '-2.5'), ('exponent width', 'h float = 12345.678', '{{?h}:12.4e}|', '  1.2346e+04|'),
    ('single braces are text', 'a int = 1', 'f(x) = {x} {{?a}}', 'f(x) = {x} 1'), ('adjacent references', 'a int = 1\nb str = "z"', '{{?a}}{{?b}}', '1z'),
    ('bare d', 'id int = 345', '{{?id}:d}', '345'), ('bare e', 'w float = 62.3 kg', '{{?w}:e}', '6.230000e+01'), ('bare f', 'h float = 1.5', '{{?h}:f}', '1.500000'), ('bare s', "name str = 'Tina'", '{{?name}:s}', 'Tina'),
    ('bare format on an element', 'w float[3] = [23.4,235.4,34]', '{{?w}[1]:e}', '2.354000e+02'), ('bare format on a slice of a string', "name str = 'Tina'", '{{?name}[0:2]:s}|', 'Ti|'), ('precision only', 'h float = 2.71828', '{{?h}:.3f}', '2.718'),
    ('width only int', 'k int = 42', '{{?k}:4d}|', '  42|'), ('int as e', 'k int = 345', '{{?k}:e}', '3.450000e+02'), ('int as bare f', 'k int = 3', '{{?k}:f}', '3.000000'),
    ('matrix element with a zero index first', 'w float[2,3] = [[1.5,2.5,3.5],[4.5,5.5,6.5]]', '{{?w}[0,1]:.2f}', '2.50'), ('matrix element with a zero index last', 'w float[2,3] = [[1.5,2.5,3.5],[4.5,5.5,6.5]]', '{{?w}[1,0]:.2f}', '4.50'),
    ('3-d array: two indices, the first zero', 'c int[2,2,2] = [[[1,2],[3,4]],[[5,6],[7,8]]]', '{{?c}[0,1]}', '[3, 4]'), ('3-d array: three indices with zeros', 'c int[2,2,2] = [[[1,2],[3,4]],[[5,6],[7,8]]]', '{{?c}[0,1,0]:d}', '3'),
    ('3-d array: index, zero, range', 'c int[2,2,2] = [[[1,2],[3,4]],[[5,6],[7,8]]]', '{{?c}[1,0,:]}', '[5, 6]'), ('row zero of a matrix', 'w float[2,3] = [[1.5,2.5,3.5],[4.5,5.5,6.5]]', '{{?w}[0]}', '[1.5, 2.5, 3.5]'),
    ('element zero of a vector', 'v int[3] = [7,8,9]', '{{?v}[0]:03d}', '007'), ('string character zero', "name str = 'Tina'", '{{?name}[0]}', 'T'),
    ('two elements of one array with the same format', 'size float[2] = [14.2378,3.5]', '{{?size}[0]:.2f} x {{?size}[1]:.2f}', '14.24 x 3.50'),
    ('two slices of one string', 'name str = "Will Smith"', '{{?name}[:4]}/{{?name}[5:]}', 'Will/Smith'), ('whole array and one element', 'v int[2] = [7,8]', '{{?v}} {{?v}[1]}', '[7, 8] 8'),
    ('one element three times in changing order', 'v int[2] = [7,8]', '{{?v}[1]} {{?v}[0]} {{?v}[1]}', '8 7 8'), ('one node with three formats', 'h float = 1.5', '{{?h}:.1f} {{?h}:.3f} {{?h}}', '1.5 1.500 1.5'),
    ('precision of twelve digits', 'pi float = 3.14159265358979', '{{?pi}:.12f}', '3.141592653590'), ('width and precision with two digits each', 'pi float = 3.14159265358979', '{{?pi}:20.14e}|', '3.14159265358979e+00|'),
    ('zero padded width twelve', 'pi float = 3.14159265358979', '{{?pi}:012.3f}', '00000003.142'), ('string width ten', "name str = 'Tina'", '{{?name}:10s}|', 'Tina      |'), ('int width twelve', 'k int = 42', '{{?k}:012d}', '000000000042'),
    ('float with unit only value is rendered', 'h float = 2 m', '{{?h}:.0f}', '2'), ('int as float format', 'k int = 3', '{{?k}:.1f}', '3.0'), ('zero', 'k int = 0', '{{?k}:03d}', '000'),
]


import math
FN_HEAD = 'side float = 4 cm\nangle float = 60 deg\nhalf float = 0.5\na float = 5 m\nb float = 6 m\nt float = 2 s\n'
FN_CASES = [('cos(60 deg)', None, 0.5), ('sin(30 deg)', None, 0.5), ('tan(180 deg / 4)', None, 1.0), ('sin(1.5707963267948966)', None, 1.0), ('cos(1 rad)', None, math.cos(1)), ('exp(0)', None, 1.0),
            ('exp(2)', None, math.exp(2)), ('log(1)', None, 0.0), ('log10(1000)', None, 3.0), ('logb(8, 2)', None, 3.0), ('sqrt(16 m2)', 'm', 4.0), ('pow(2 m, 3)', 'm3', 8.0),
            ('{?side} * cos({?angle})', 'cm', 2.0), ('sin({?angle})', None, math.sin(math.pi / 3)), ('2 * sin(30 deg) + 1', None, 2.0), ('cos({?angle}) / {?half}', None, 1.0),
            ('sin(3.141592653589793 / 6)', None, 0.5), ('tan(45 deg) * 3 m', 'm', 3.0), ('sqrt(9 m2) + 1 m', 'm', 4.0), ('pow(3 cm, 2) / 1 cm', 'cm', 9.0), ('sin(1 m)', None, None), ('cos(2 s)', None, None),
            # a sign in front of a reference, parenthesis or function (after another operator it is written with two blanks)
            ('{?a} *  - {?b}', 'm2', -30.0), ('12 m /  - (1 s + {?t}) * {?t}', 'm', -8.0), ('2 *  - pow({?b}, 2)', 'm2', -72.0), (' - {?a} + 2 m', 'm', -3.0), ('3 m -  - {?b}', 'm', 9.0),
            ('-8 / 2 * -4', None, 16.0), ('{?a} * -2', 'm', -10.0), ('{?a} /  - 2', 'm', -2.5), ('{?a} +  - {?b}', 'm', -1.0), (' - ({?a} - {?b})', 'm', 1.0)]


def _ties():
    out = []
    for head, other in (('a float = 30 cm', '3 dm'), ('a float = 30 cm', '0.3 m'), ('a float = 0.1 km', '100 m'), ('a float = 57.3 kg', '57300 g'), ('a float = 1.1 m', '110 cm'),
                        ('a float = 3 dm', '30 cm'), ('a float = 0.7 cm', '7 mm'), ('a float = 2.54 cm', '1 in'), ('a float = 1e-3 s', '1 ms'), ('a float = 33 mm', '3.3 cm')):
        for op, want in (('==', True), ('!=', False), ('<=', True), ('>=', True), ('<', False), ('>', False)):
            if op in ('<', '>'):
                continue          # strict comparisons of equal quantities are not judged: conversion noise decides them and the documentation gives them no tolerance
            out.append((head, '{?a} ' + op + ' ' + other, want))
            out.append((head, other + ' ' + op + ' {?a}', want))
    for head, expr, want in (('w float = 57.3 kg', '{?w} == 57.30001 kg', True), ('w float = 57.3 kg', '{?w} >= 57.30001 kg', True), ('w float = 57.3 kg', '{?w} <= 57.29999 kg', True),
                             ('w float = 57.3 kg', '{?w} >= 57300.01 g', True), ('w float = 57.3 kg', '{?w} != 57.30001 kg', False), ('w float = 57.3 kg', '{?w} >= 57.31 kg', False),
                             ('w float = 57.3 kg', '{?w} <= 57.29 kg', False), ('w float = 57.3 kg', '{?w} == 57.31 kg', False), ('w float = 57.3 kg', '{?w} != 57.31 kg', True),
                             ('w float = 57.3 kg', '~({?w} == 57.30001 kg)', False), ('k int = 3', '{?k} == 3', True), ('k int = 3', '{?k} != 3', False), ('k int = 3', '{?k} != 4', True),
                             ('k int = 3', '{?k} <= 3 && {?k} >= 3', True),
                             ('depth float = -2.5 m', '{?depth} <= -250 cm', True), ('depth float = -2.5 m', '{?depth} >= -2.5 m', True), ('depth float = -2.5 m', '{?depth} >= -250 cm && {?depth} <= -0.0025 km', True),
                             ('depth float = -2.5 m', '{?depth} <= -2.6 m', False), ('depth float = -2.5 m', '{?depth} >= -2.4 m', False), ('n int = -3', '{?n} >= -3 && {?n} <= -3', True),
                             # two integer nodes in different units: the comparison happens after an exact conversion, nothing is truncated
                             ('height int = 177 cm\nstep int = 1 m', '{?height} == {?step}', False), ('height int = 177 cm\nstep int = 1 m', '{?height} > {?step}', True),
                             ('height int = 177 cm\nstep int = 1 m', '{?height} <= {?step}', False), ('height int = 177 cm\nstep int = 1 m', '{?step} < {?height}', True),
                             ('w int = 2500 mm\nd int = 2 m', '{?w} > {?d}', True), ('w int = 2500 mm\nd int = 2 m', '{?w} == {?d}', False), ('w int = 2500 mm\nd int = 2 m', '{?d} != {?w}', True),
                             ('w int = 2000 mm\nd int = 2 m', '{?w} == {?d}', True), ('g\n  w int = 2500 mm\n  d int = 2 m', '{?g.w} >= {?g.d}', True)):
        out.append((head, expr, want))
    # two literals: compared with their units (fixed by e09fbeb; before, the units were ignored and ordered comparisons raised TypeError)
    for expr, want in (('1 m == 100 cm', True), ('1 m == 1 cm', False), ('1 m != 100 cm', False), ('1 m != 1 cm', True), ('2 km > 1500 m', True), ('2 km < 1500 m', False), ('1 < 2', True), ('2 <= 1', False),
                       ('3 dm <= 30 cm', True), ('0.3 m >= 3 dm', True), ('1 in == 2.54 cm', True), ('~1 m == 100 cm', False), ('1e3 m == 1 km && 2 > 1', True), ('1 m == 1 cm || 1 == 1', True),
                       ('57.3 kg == 57300.01 g', True), ('57.3 kg == 57310 g', False), ('1 m == 1 s', 'refused'), ('1 kg < 1 m', 'refused')):
        out.append(('z float = 0', expr, want))
    return out


TIES = _ties()


def scenarios(tier, seed):
    rnd = random.Random(seed)
    S = []
    nnum, nlog = (150, 80) if tier == 'quick' else (900, 500)
    for j in range(nnum):
        custom = (j % 5 == 0)
        g = NG(rnd, custom)
        dim = rnd.choice([0, 1, 1, 2]) if not (custom and j % 2 == 0) else 1
        t = fix_left(g.tree(dim, rnd.choice([1, 2, 2, 3])))
        inp = {n: 'real' for n in g.names}
        for name, unit, mod in g.nodes:
            inp[name] = 'real'
            inp[name + '_0'] = 'real'
        if not inp:
            continue
        S.append(Scenario(f'numerical/{j}', NUM_SRC, inp, [f'v.{n} > 0' for n in inp], consts={'tree': t, 'nodes': g.nodes, 'custom': custom, 'reqcustom': custom and j % 2 == 0}, preamble=PRE, what=f'numerical expression {t}', samples=2))
    bad = [('adding different dimensions', 'a float = ("10 m + 1 J")'), ('subtracting different dimensions', 'a float = ("10 m - 1 s") m'), ('reference to a missing node', 'a float = ("{?zz} * 2")'),
           ('result requested in another dimension', 'a float = ("2 m * 3 m") s'), ('unknown unit inside the expression', 'a float = ("2 foo + 1 foo")')]
    S.append(Scenario('numerical-rejected', MIX_SRC, {}, consts={'bad': bad}, preamble=PRE, what='numerical expressions that must be refused', samples=1))
    # every ordered pair of units of different dimension, reciprocal pairs (s / Hz, m / m-1, Ohm / S, km/s / s/m) included, literal and referenced operands
    DIMU = ['m', 's', 'Hz', 'm-1', 'J', 'kg', 'm/s', 's/m', 'K', 'Ohm', 'S', 'm2', 'N', 'rad']
    pairs = [(a, b) for a in DIMU for b in DIMU if a != b]
    bad2 = []
    for k, (a, b) in enumerate(pairs):
        op = '+-'[k % 2]
        if k % 3 == 0:
            bad2.append((f'{a} {op} {b} (referenced operands)', f'p float = 2 {a}\nq float = 4 {b}\na float = ("{{?p}} {op} {{?q}}") {a}'))
        elif k % 3 == 1:
            bad2.append((f'{a} {op} {b}', f'a float = ("2 {a} {op} 4 {b}") {a}'))
        else:
            bad2.append((f'3 * ({a} {op} {b})', f'q float = 4 {b}\na float = ("3 * (2 {a} {op} {{?q}})")'))
    S.append(Scenario('numerical-rejected/dimensions', MIX_SRC, {}, consts={'bad': bad2}, preamble=PRE, what='sums and differences of operands of different dimension (all ordered pairs of 14 units)', samples=1))
    for j in range(nlog):
        state = {'nodes': [], 'lits': [], 'bools': [], 'cmps': []}
        t = lgen(rnd, rnd.choice([1, 2, 2, 3]), state)
        inp = {}
        pre = []
        for name, dtype, unit in state['nodes']:
            inp[name] = 'bool' if dtype == 'bool' else ('int' if dtype == 'int' else 'real')
        for name in state['lits']:
            inp[name] = 'real'
        for name in state['bools']:
            inp[name] = 'bool'
        for a, b in state['cmps']:
            fa, fb = (unitkit.ref_units(a[2])[0] if a[2] else 1.0), (unitkit.ref_units(b[2])[0] if b[2] else 1.0)
            A, B = f'v.{a[1]} * {fa!r}', f'v.{b[1]} * {fb!r}'
            pre.append(f'z3.Or(({A} == {B}).t, (abs({A} - {B}) > 0.001 * (1 + abs({A}) + abs({B}))).t) if hasattr(v.{a[1]}, "t") or hasattr(v.{b[1]}, "t") else (({A} == {B}) or abs({A} - {B}) > 0.001 * (1 + abs({A}) + abs({B})))')
            for o in (a, b):
                pre.append(f'v.{o[1]} >= 0')
        if not inp:
            continue
        S.append(Scenario(f'logical/{j}', LOG_SRC, inp, pre, consts={'tree': t, 'nodes': state['nodes']}, preamble=LOG_PRE, what=f'logical expression {t}', samples=2))
    nband = 24 if tier == 'quick' else 120
    for j in range(nband):
        dim = j % 2
        units = {0: [None], 1: ['m', 'cm', 'dm', 'km', 'in']}[dim]
        ua, ub = rnd.choice(units), rnd.choice(units)
        kinds = [('ref', 'lit'), ('lit', 'ref'), ('ref', 'ref')][j % 3]
        inside = (j % 4) < 2
        fa, fb = (unitkit.ref_units(ua)[0] if ua else 1.0), (unitkit.ref_units(ub)[0] if ub else 1.0)
        if inside:
            ops, pre = ['==', '!=', '<=', '>='], [('v.b > 0' if j % 8 < 4 else 'v.b < 0'), 'v.d >= -9', 'v.d <= 9']      # ties of negative values as well
        else:
            ops = ['==', '!=', '<=', '>=', '<', '>']
            pre = ['v.b >= 0.1', f'v.b * {fb / fa!r} >= 0.1', 'abs(v.d) >= 12', 'abs(v.d) <= 1000']
            if j % 8 >= 6:           # small magnitudes (1e-12 .. 1e-7): the tolerance is relative, values that differ by a factor are not equal
                pre = ['v.b >= 1e-12', 'v.b <= 1e-7', 'abs(v.d) >= 12', 'abs(v.d) <= 5000000']
        S.append(Scenario(f'band/{j}', BAND_SRC, {'b': 'real', 'd': 'real'}, pre, consts={'ua': ua, 'ub': ub, 'kinds': kinds, 'ops': ops, 'inside': inside}, preamble=PRE,
                          what=f'comparisons of values {"inside" if inside else "just outside"} the 1e-6 tolerance, units {ua} / {ub}, operands {kinds}', samples=3))
    S.append(Scenario('ties', TIES_SRC, {}, consts={'cases': TIES}, preamble=PRE, what='comparisons of exactly equal quantities written in different units (binary64 conversion noise)', samples=1))
    S.append(Scenario('functions', FN_SRC, {}, consts={'cases': FN_CASES, 'head': FN_HEAD}, preamble=PRE, what='documented functions inside numerical expressions (concrete arguments with units)', samples=1))
    S.append(Scenario('templates', TPL_SRC, {}, consts={'cases': TEMPLATES}, preamble=PRE, what='templates against Python format()', samples=1))
    S.append(Scenario('canary/priority', NUM_SRC, {'x1': 'real', 'x2': 'real', 'x3': 'real'}, ['v.x1 > 0', 'v.x2 > 0', 'v.x3 > 0'],
                      consts={'tree': ('bin', '*', ('bin', '+', ('lit', 'x1', 'm'), ('lit', 'x2', 'cm')), ('lit', 'x3', None)), 'nodes': [], 'custom': False, 'reqcustom': False}, preamble=PRE, canary=True))
    return S


NT = 16


def tasks(tier, seed):
    return [{'id': f'c18-{i:02d}', 'tier': tier, 'seed': seed, 'slice': [i, NT]} for i in range(NT)]


def run_task(task):
    S = scenarios(task['tier'], task['seed'])
    i, k = task['slice']
    mine = S[i::k]
    res = run_scenarios([s for s in mine if s.inputs], dipkit.dip_patches, timeout_ms=20000, seed=task['seed'], wall_s=900, max_paths=5000, div_zero='fork')
    res2 = run_scenarios([s for s in mine if not s.inputs], contextlib.nullcontext, timeout_ms=20000, seed=task['seed'])
    for key, val in res2.items():
        if key == 'stats':
            for kk, vv in val.items():
                res['stats'][kk] = res['stats'].get(kk, 0) + vv
        elif isinstance(val, list):
            res[key] = res.get(key, []) + val
        else:
            res[key] = res.get(key, 0) + val
    return res
