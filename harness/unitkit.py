"""Shared kit for the units harnesses (C03-C08): namespace stubs, symbolic unit
tables, and an independent reference evaluator for unit expressions."""
import contextlib
import fractions
import re

import z3

from symx import core, stubs
from symx.core import SymReal

UNITS_STUBS = [
    ('scinumtools.units.magnitude', 'float', stubs.Float),
    ('scinumtools.units.quantity', 'float', stubs.Float),
    ('scinumtools.units.unit_solver', 'float', stubs.Float),
    ('scinumtools.units.fraction', 'float', stubs.Float),
    ('scinumtools.units.base_units', 'float', stubs.Float),
    ('scinumtools.units.magnitude', 'Decimal', stubs.DecimalStub),
    ('scinumtools.units.quantity', 'Decimal', stubs.DecimalStub),
    ('scinumtools.units.unit_types', 'Decimal', stubs.DecimalStub),
]
UNITS_STUB_TEXT = [
    "name `float` in scinumtools.units.magnitude / .quantity / .unit_solver / .fraction / .base_units is symx.Float (isinstance accepts proxies, float(proxy) is the identity, sentinel numerals map to proxies)",
    "name `Decimal` in the same modules and in unit_types is symx.DecimalStub: proxies of flavour SymDec count as decimal.Decimal so the library's Decimal branches run symbolically (the model does not reproduce Decimal's refusal of mixed float arithmetic)",
    "reals stand for binary64 floats: formula errors are found, rounding is outside the claim; counterexamples are replayed in real floats",
]


@contextlib.contextmanager
def units_patches():
    with stubs.patched(UNITS_STUBS):
        yield


def tables():
    from scinumtools.units.settings import UNIT_PREFIXES, UNIT_STANDARD
    return UNIT_PREFIXES, UNIT_STANDARD


def _safe(s):
    return re.sub(r'[^A-Za-z0-9]', lambda m: '_%02x' % ord(m.group()), s)


class SymTables:
    """Replace the magnitude column of the prefix/unit tables by positive solver
    variables (restored on exit).  Two rows that happen to hold the same number
    (J, N, Pa, W are all 1e3) become distinguishable."""

    def __init__(self, units=None, prefixes=None):
        P, U = tables()
        self.units = units if units is not None else list(U.keys())
        self.prefixes = prefixes if prefixes is not None else list(P.keys())
        self.g = {p: z3.Real('g_' + _safe(p)) for p in self.prefixes}
        self.f = {u: z3.Real('f_' + _safe(u)) for u in self.units}
        self.saved = []
        self.actual_g = {p: float(P[p].magnitude) for p in self.prefixes}     # read before anything is made symbolic
        self.actual_f = {u: float(U[u].magnitude) for u in self.units}

    def actual_pairs(self):
        return [(self.g[p], self.actual_g[p]) for p in self.prefixes] + [(self.f[u], self.actual_f[u]) for u in self.units]

    def __enter__(self):
        P, U = tables()
        for p in self.prefixes:
            row = P[p]
            self.saved.append((row, row.magnitude))
            row.magnitude = SymReal(self.g[p])
        for u in self.units:
            row = U[u]
            self.saved.append((row, row.magnitude))
            row.magnitude = SymReal(self.f[u])
        return self

    def __exit__(self, *a):
        for row, val in reversed(self.saved):
            row.magnitude = val
        self.saved = []

    def positivity(self):
        return [t > 0 for t in list(self.g.values()) + list(self.f.values())]

    def concrete_values(self):
        """table values for the symbolic entries (used to replay a model)"""
        return {str(t): core._float(val) for (row, val), t in zip(self.saved, list(self.g.values()) + list(self.f.values()))}


# ---------------------------------------------------------------------------
# independent reference evaluator for unit expressions
# ---------------------------------------------------------------------------

def resolve_symbol(text):
    """(prefix, base) with prefix+base == text, prefix '' or admissible for base; None if not in the language.
    Independent of AtomParser: brute force over the tables."""
    P, U = tables()
    hits = []
    for base in U.keys():
        if not text.endswith(base):
            continue
        pre = text[:len(text) - len(base)]
        if pre == '':
            hits.append(('', base))
            continue
        if pre not in P.keys():
            continue
        adm = U[base].prefixes
        if adm is True or (isinstance(adm, list) and pre in adm):
            hits.append((pre, base))
    if not hits:
        return None
    if len(hits) > 1:
        raise AssertionError(f"ambiguous unit symbol {text!r}: {hits}")
    return hits[0]


_EXP = re.compile(r'([+-]?[0-9]+)(?::([+-]?[0-9]+))?$')


def split_atom(text):
    """'km-2' -> ('km', Fraction(-2)); 'm1:2' -> ('m', 1/2)"""
    m = re.search(r'[0-9:+-]+$', text)
    if m and m.start() > 0:
        e = _EXP.match(m.group())
        if not e:
            raise ValueError(text)
        num, den = int(e.group(1)), int(e.group(2) or 1)
        return text[:m.start()], fractions.Fraction(num, den)
    return text, fractions.Fraction(1)


class RefUnit:
    """factor as (number, {('p',prefix)|('u',unit): Fraction exponent}) and dimension vector"""

    def __init__(self, number=fractions.Fraction(1), powers=None, dims=None, numvars=None):
        self.number = number
        self.powers = powers or {}
        self.dims = dims or [fractions.Fraction(0)] * 8
        self.numvars = numvars or []     # [(proxy, +1|-1)] symbolic numeric factors

    def mul(self, o, sign=1):
        powers = dict(self.powers)
        for k, e in o.powers.items():
            powers[k] = powers.get(k, 0) + sign * e
        number = self.number * (o.number if sign == 1 else 1 / o.number)
        dims = [a + sign * b for a, b in zip(self.dims, o.dims)]
        return RefUnit(number, powers, dims, self.numvars + [(p, s * sign) for p, s in o.numvars])

    def pow(self, e):
        return RefUnit(self.number ** e if e.denominator == 1 else fractions.Fraction(float(self.number) ** float(e)),
                       {k: v * e for k, v in self.powers.items()}, [d * e for d in self.dims],
                       [(p, s * e) for p, s in self.numvars])

    def term(self, st=None):
        """z3 Real term of the factor; st = SymTables (symbolic entries) or None (concrete)."""
        P, U = tables()
        t = z3.RealVal(str(self.number))
        for (kind, name), e in self.powers.items():
            if e == 0:
                continue
            if kind == 'p':
                base = st.g[name] if st and name in st.g else core.lift(P[name].magnitude)
            else:
                base = st.f[name] if st and name in st.f else core.lift(U[name].magnitude)
            t = t * core.real_pow(base, e)
        for p, s in self.numvars:
            t = t * core.real_pow(core.lift(p), fractions.Fraction(s))
        return z3.simplify(t)

    def value(self):
        P, U = tables()
        x = float(self.number)
        for (kind, name), e in self.powers.items():
            base = P[name].magnitude if kind == 'p' else U[name].magnitude
            x *= float(base) ** float(e)
        return x


def ref_atom(text, sentinels=None):
    text = text.strip()
    if sentinels and text in sentinels:
        return RefUnit(numvars=[(sentinels[text], 1)])
    if re.match(r'^-?[0-9.]+(e[0-9+-]+)?$', text):
        return RefUnit(number=fractions.Fraction(text))
    sym, e = split_atom(text)
    r = resolve_symbol(sym)
    if r is None:
        raise KeyError(text)
    prefix, base = r
    P, U = tables()
    powers = {('u', base): e}
    if prefix:
        powers[('p', prefix)] = e
    dims = []
    for d in U[base].dimensions:
        d = fractions.Fraction(*d) if isinstance(d, tuple) else fractions.Fraction(d)
        dims.append(d * e)
    return RefUnit(powers=powers, dims=dims)


def ref_parse(expr, sentinels=None):
    """recursive descent over  term (('*'|'/') term)* ,  term = '(' expr ')' | atom ; left associative"""
    pos = 0
    s = expr

    def parse_expr():
        nonlocal pos
        left = parse_term()
        while pos < len(s) and s[pos] in '*/':
            op = s[pos]
            pos += 1
            right = parse_term()
            left = left.mul(right, 1 if op == '*' else -1)
        return left

    def parse_term():
        nonlocal pos
        while pos < len(s) and s[pos] == ' ':
            pos += 1
        if pos < len(s) and s[pos] == '(':
            pos += 1
            r = parse_expr()
            if pos >= len(s) or s[pos] != ')':
                raise ValueError('unbalanced')
            pos += 1
            return r
        start = pos
        while pos < len(s) and s[pos] not in '*/()':
            pos += 1
        return ref_atom(s[start:pos], sentinels)

    r = parse_expr()
    if pos != len(s):
        raise ValueError('trailing')
    return r


# ---------------------------------------------------------------------------
# stand-alone reference evaluator (pure python; exec'd here and pasted into scenario preambles / replay scripts)
# ---------------------------------------------------------------------------
REF_SRC = r'''
import re as _re, fractions as _fr
from scinumtools.units.settings import UNIT_PREFIXES as _P, UNIT_STANDARD as _U
def ref_resolve(text):
    hits = []
    for base in _U.keys():
        if not text.endswith(base): continue
        pre = text[:len(text) - len(base)]
        if pre == '': hits.append(('', base)); continue
        if pre not in _P.keys(): continue
        adm = _U[base].prefixes
        if adm is True or (isinstance(adm, list) and pre in adm): hits.append((pre, base))
    if len(hits) != 1: raise KeyError(text)
    return hits[0]
def ref_atom(text):
    text = text.strip()
    if _re.match(r'^-?[0-9.]+(e[0-9+-]+)?$', text):
        return float(text), [_fr.Fraction(0)] * 8, {}
    m = _re.search(r'[0-9:+-]+$', text)
    e = _fr.Fraction(1)
    if m and m.start() > 0:
        parts = m.group().split(':')
        e = _fr.Fraction(int(parts[0]), int(parts[1]) if len(parts) > 1 else 1)
        text = text[:m.start()]
    pre, base = ref_resolve(text)
    _n = lambda x: float(x) if isinstance(x, (int, float)) else x      # a symbolic table entry (harness run) stays a proxy
    f = _n(_U[base].magnitude) * (_n(_P[pre].magnitude) if pre else 1.0)
    dims = [(_fr.Fraction(*d) if isinstance(d, tuple) else _fr.Fraction(d)) * e for d in _U[base].dimensions]
    return (f ** float(e) if isinstance(f, float) else f), dims, {(pre, base): e}
def ref_units(expr):
    """unit expression text -> (factor float, [8 Fractions], {(prefix, base): Fraction exponent})"""
    if not expr: return 1.0, [_fr.Fraction(0)] * 8, {}
    s, pos = expr, 0
    def comb(a, b, sign):
        f = a[0] * b[0] if sign == 1 else a[0] / b[0]
        d = [x + sign * y for x, y in zip(a[1], b[1])]
        ex = dict(a[2])
        for k, e in b[2].items(): ex[k] = ex.get(k, 0) + sign * e
        return f, d, ex
    def pexpr():
        nonlocal pos
        left = pterm()
        while pos < len(s) and s[pos] in '*/':
            op = s[pos]; pos += 1
            left = comb(left, pterm(), 1 if op == '*' else -1)
        return left
    def pterm():
        nonlocal pos
        if pos < len(s) and s[pos] == '(':
            pos += 1
            r = pexpr()
            assert s[pos] == ')'; pos += 1
            return r
        st = pos
        while pos < len(s) and s[pos] not in '*/()': pos += 1
        return ref_atom(s[st:pos])
    r = pexpr()
    assert pos == len(s)
    return r[0], r[1], {k: e for k, e in r[2].items() if e != 0}
def lib_exps(q):
    """exponents the library reports, keyed like ref_units: {(prefix, base): Fraction}"""
    out = {}
    for unitid, e in q.baseunits.value().items():
        pre, _, base = unitid.rpartition(':') if ':' in unitid and not unitid.startswith('#') else ('', '', unitid)
        out[(pre, base)] = _fr.Fraction(*e) if isinstance(e, tuple) else _fr.Fraction(e)
    return out
def lib_dims(q):
    return [(_fr.Fraction(*d) if isinstance(d, tuple) else _fr.Fraction(d)) for d in q.baseunits.dimensions.value()]
'''
_refns = {}
exec(REF_SRC, _refns)
ref_units = _refns['ref_units']
