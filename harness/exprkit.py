"""Expression skeletons for the generic solver (C01/C02): generator, renderer and the documented-order reference evaluator."""
import re

# pure python, pasted into preambles / replay scripts
EXPR_SRC = r'''
import math as _math
FUNCS1 = ('log', 'log10', 'exp', 'sqrt', 'sin', 'cos', 'tan')
FUNCS2 = ('logb', 'pow')
def render(O, v, t, layout=0):
    """tree -> expression text. layout 0: no blanks, 1: single blanks around binary operators and after commas, 2: irregular blanks"""
    sp = {0: ('', ''), 1: (' ', ' '), 2: ('  ', ' ')}[layout]
    k = t[0]
    if k == 'num':
        return O.lit(getattr(v, t[1]))
    if k == 'const':
        return t[1]
    if k == 'bin':
        return render(O, v, t[2], layout) + sp[0] + t[1] + sp[1] + render(O, v, t[3], layout)
    if k == 'un':
        return t[1] + (' ' if layout == 2 else '') + render(O, v, t[2], layout)
    if k == 'par':
        return '(' + (' ' if layout == 2 else '') + render(O, v, t[1], layout) + ')'
    if k == 'fn':
        return t[1] + '(' + (',' + sp[1]).join(render(O, v, a, layout) for a in t[2]) + (' ' if layout == 2 else '') + ')'
    raise ValueError(k)
def truthy(O, x):
    return bool(O.truth(x))
def evalref(O, v, t):
    """value by the documented order (the tree IS the documented parse: stratified grammar, left to right inside a step)"""
    k = t[0]
    if k == 'num':
        return getattr(v, t[1])
    if k == 'const':
        return float(t[1])
    if k == 'lit':
        return t[1]
    if k == 'par':
        return evalref(O, v, t[1])
    if k == 'un':
        x = evalref(O, v, t[2])
        if t[1] == '-': return -x
        if t[1] == '+': return x
        if t[1] == '!': return not truthy(O, x)
    if k == 'fn':
        a = [evalref(O, v, x) for x in t[2]]
        n = t[1]
        if n == 'log': return O.ln(a[0])
        if n == 'log10': return O.log10(a[0])
        if n == 'exp': return O.pow(_math.e, a[0])
        if n == 'sqrt': return O.sqrt(a[0])
        if n == 'sin': return O.sin(a[0])
        if n == 'cos': return O.cos(a[0])
        if n == 'tan': return O.tan(a[0])
        if n == 'logb': return O.ln(a[0]) / O.ln(a[1])
        if n == 'pow': return O.pow(a[0], a[1])
    if k == 'bin':
        op = t[1]
        a = evalref(O, v, t[2])
        if op == '&&':
            return evalref(O, v, t[3]) if truthy(O, a) else a
        if op == '||':
            return a if truthy(O, a) else evalref(O, v, t[3])
        b = evalref(O, v, t[3])
        if op == '+': return a + b
        if op == '-': return a - b
        if op == '*': return a * b
        if op == '/': return a / b
        if op == '**': return O.pow(a, b)
        if op == '==': return a == b
        if op == '!=': return a != b
        if op == '<': return a < b
        if op == '>': return a > b
        if op == '<=': return a <= b
        if op == '>=': return a >= b
    raise ValueError(t)
'''

LEVELS = [
    ('or', ['||']), ('and', ['&&']), ('not', None), ('cmp', ['==', '!=', '<=', '>=', '<', '>']),
    ('add', ['+', '-']), ('mul', ['*', '/']), ('pow', ['**']), ('unary', None), ('primary', None),
]
FUNCS1 = ['log', 'log10', 'exp', 'sqrt', 'sin', 'cos', 'tan']
FUNCS2 = ['logb', 'pow']


def count_ops(t):
    k = t[0]
    if k in ('num', 'const'):
        return 0
    if k == 'bin':
        return 1 + count_ops(t[2]) + count_ops(t[3])
    if k == 'un':
        return 1 + count_ops(t[2])
    if k == 'par':
        return 1 + count_ops(t[1])
    if k == 'fn':
        return 1 + sum(count_ops(a) for a in t[2])


def relabel(t, counter=None):
    """give every leaf a fresh variable name x1, x2, ..."""
    counter = counter if counter is not None else [0]
    k = t[0]
    if k == 'num':
        counter[0] += 1
        return ('num', f'x{counter[0]}')
    if k == 'const':
        return t
    if k == 'bin':
        a = relabel(t[2], counter)
        return ('bin', t[1], a, relabel(t[3], counter))
    if k == 'un':
        return ('un', t[1], relabel(t[2], counter))
    if k == 'par':
        return ('par', relabel(t[1], counter))
    if k == 'fn':
        return ('fn', t[1], [relabel(a, counter) for a in t[2]])


def leaves(t):
    k = t[0]
    if k == 'num':
        return [t[1]]
    if k == 'const':
        return []
    if k == 'bin':
        return leaves(t[2]) + leaves(t[3])
    if k == 'un':
        return leaves(t[2])
    if k == 'par':
        return leaves(t[1])
    return [x for a in t[2] for x in leaves(a)]


class Gen:
    """all trees of the stratified grammar with exactly n operator occurrences at a given level (memoised).
    ops: optional restriction of the operator alphabet {'bin': [...], 'fn1': [...], 'fn2': [...], 'sign': [...], 'not': bool, 'par': bool}"""

    def __init__(self, ops=None):
        self.ops = ops or {}
        self.memo = {}

    def level_ops(self, name, default):
        allowed = self.ops.get('bin')
        return [o for o in default if allowed is None or o in allowed]

    def trees(self, li, n):
        key = (li, n)
        if key in self.memo:
            return self.memo[key]
        name, ops = LEVELS[li]
        out = []
        if name == 'primary':
            if n == 0:
                out.append(('num', '?'))
            else:
                if self.ops.get('par', True):
                    for t in self.trees(0, n - 1):
                        out.append(('par', t))
                for f in self.ops.get('fn1', FUNCS1):
                    for t in self.trees(0, n - 1):
                        out.append(('fn', f, [t]))
                for f in self.ops.get('fn2', FUNCS2):
                    for i in range(n):
                        for a in self.trees(0, i):
                            for b in self.trees(0, n - 1 - i):
                                out.append(('fn', f, [a, b]))
        elif name == 'unary':
            out += self.trees(li + 1, n)
            if n >= 1:
                for s in self.ops.get('sign', ['+', '-']):
                    for t in self.trees(li + 1, n - 1):
                        out.append(('un', s, t))
            if n >= 2 and self.ops.get('double_sign', True):
                for s1 in self.ops.get('sign', ['+', '-']):
                    for s2 in self.ops.get('sign', ['+', '-']):
                        for t in self.trees(li + 1, n - 2):
                            out.append(('un', s1, ('un', s2, t)))
        elif name == 'not':
            out += self.trees(li + 1, n)
            if n >= 1 and self.ops.get('not', True):
                for t in self.trees(li + 1, n - 1):
                    out.append(('un', '!', t))
        else:
            # left-associative chain: tree = (left chain) op (next level)
            out += self.trees(li + 1, n)
            lops = self.level_ops(name, ops)
            if n >= 1 and lops:
                for i in range(n):
                    for left in self.trees(li, i):
                        for right in self.trees(li + 1, n - 1 - i):
                            for o in lops:
                                out.append(('bin', o, left, right))
        self.memo[key] = out
        return out

    def all(self, n):
        return [relabel(t) for t in self.trees(0, n)]


BOOLISH = ('==', '!=', '<=', '>=', '<', '>', '&&', '||')


def may_be_bool(t):
    k = t[0]
    if k == 'par':
        return may_be_bool(t[1])
    if k == 'bin':
        return t[1] in BOOLISH
    if k == 'un':
        return t[1] == '!'
    return False


def fn_of_bool(t):
    """does the tree use a truth value as a number: a transcendental function, a sign or an arithmetic operator applied directly to a
    truth value?  Outside the claim: NumPy evaluates np.sin(True) in float16, -np.True_ and np.True_ - x raise, np.True_ + np.True_ is True,
    while the same expressions on Python booleans (comparisons of plain floats) give numbers."""
    k = t[0]
    if k in ('num', 'const'):
        return False
    if k == 'bin':
        if t[1] in ('+', '-', '*', '/', '**') and (may_be_bool(t[2]) or may_be_bool(t[3])):
            return True
        return fn_of_bool(t[2]) or fn_of_bool(t[3])
    if k == 'un':
        if t[1] in ('+', '-') and may_be_bool(t[2]):
            return True
        return fn_of_bool(t[2])
    if k == 'par':
        return fn_of_bool(t[1])
    if k == 'fn':
        if any(may_be_bool(a) for a in t[2]):
            return True
        return any(fn_of_bool(a) for a in t[2])
