"""Shared kit for the DIP harnesses (C13-C18, DIP part of C09)."""
import contextlib

from symx import stubs
from harness import unitkit


class NpShim:
    """stand-in for the name `np` in dip.nodes.node_base: np.array(x, dtype=<symx stub>) applies the stub element-wise
    (numpy would keep the raw sentinel strings in an object array), everything else is numpy"""

    def __init__(self):
        import numpy
        self._np = numpy

    def __getattr__(self, n):
        return getattr(self._np, n)

    def isscalar(self, x):
        from symx import core
        return True if core.is_sym(x) else self._np.isscalar(x)      # a proxy stands for one number

    def array(self, obj, dtype=None, **kw):
        if dtype in (stubs.Float, stubs.Int):
            a = self._np.array(obj, dtype=object)
            out = self._np.empty(a.shape, dtype=object)
            for idx in self._np.ndindex(a.shape):
                out[idx] = dtype(a[idx])
            return out
        return self._np.array(obj, dtype=dtype, **kw)


def dip_stub_entries():
    from scinumtools.dip.nodes.node_float import FloatNode
    from scinumtools.dip.nodes.node_integer import IntegerNode
    from scinumtools.dip.datatypes import FloatType, IntegerType
    return unitkit.UNITS_STUBS + [
        ('scinumtools.units.magnitude', 'int', stubs.Int),
        ('scinumtools.units.quantity', 'int', stubs.Int),
        (FloatNode, 'dtype', stubs.Float),
        (FloatType, 'dtype', stubs.Float),
        (IntegerNode, 'dtype', stubs.Int),
        (IntegerType, 'dtype', stubs.Int),
        ('scinumtools.dip.datatypes.type_number', 'float', stubs.Float),
        ('scinumtools.dip.datatypes.type_number', 'int', stubs.Int),
        ('scinumtools.dip.solvers.numerical_solver', 'float', stubs.Float),
        ('scinumtools.dip.solvers.numerical_solver', 'int', stubs.Int),
        ('scinumtools.dip.nodes.node_unit', 'float', stubs.Float),
        ('scinumtools.dip.nodes.node_base', 'float', stubs.Float),
        ('scinumtools.dip.nodes.node_base', 'int', stubs.Int),
        ('scinumtools.dip.nodes.node_base', 'bool', stubs.Bool),
        ('scinumtools.dip.nodes.node_base', 'np', NpShim()),
        ('scinumtools.solver.atom', 'float', stubs.Float),
        ('scinumtools.dip.solvers.logical_solver', 'bool', stubs.Bool),
    ]


@contextlib.contextmanager
def dip_patches():
    with stubs.patched(dip_stub_entries()):
        yield


DIP_STUB_TEXT = unitkit.UNITS_STUB_TEXT + [
    "class attributes FloatNode.dtype / FloatType.dtype / IntegerNode.dtype / IntegerType.dtype and the names float/int/bool in dip.nodes.node_base, dip.datatypes.type_number, "
    "dip.solvers.numerical_solver, dip.nodes.node_unit are the symx stubs: numeric literals in DIP text are sentinel numerals that map to solver variables, the text-level code "
    "(regular expressions, line classification, hierarchy, branching) runs unchanged on ordinary text",
    "every DIP parser object created by a scenario is kept alive until the scenario ends (parsers are named after id(self); a freed parser's id may be reused, which makes a later parse on top of its environment fail with 'Reference source alread exists' - an artefact of object lifetime, not of the text)",
]

DIP_SRC = r'''
from scinumtools.dip import DIP, Format
_KEEP = []
def dip_parse(text, base=None):
    with DIP(base) as p:
        _KEEP.append(p)        # parser objects are named after id(self): a freed parser's id can be reused and then clashes in the source list of a base environment
        p.add_string(text)
        return p.parse()
def outcome(fn):
    try:
        return ('ok', fn())
    except Exception as e:
        return ('raised', type(e).__name__ + ': ' + str(e)[:80])
'''
