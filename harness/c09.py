"""C09 - temporary custom units never outlive their scope."""
import ast
import inspect

from vf.scen import Scenario, run_scenarios
from harness import unitkit

PROPERTY = 'C09'
ENCODED = ['scinumtools.units.unit_environment:UnitEnvironment.__init__', 'scinumtools.units.unit_environment:UnitEnvironment.close',
           'scinumtools.units.unit_environment:UnitEnvironment.__exit__', 'scinumtools.units.unit_environment:check_unique_symbols',
           'scinumtools.parameter_table:ParameterTable.append', 'scinumtools.parameter_table:ParameterTable.__delitem__',
           'scinumtools.dip.nodes.node_unit:UnitNode.parse', 'scinumtools.dip.nodes.node_float:FloatNode.parse', 'scinumtools.dip.solvers.numerical_solver:NumericalSolver.solve',
           'scinumtools.dip.datatypes.type_number:NumberType.convert']
EXPLANATION = ("Bounded model checking of the scope protocol. The code reacts to a new symbol only through `symbol in UNIT_STANDARD` and through duplicates among prefix+symbol, so "
               "symbols fall into four behavioural classes (fresh; existing symbol; fresh but colliding through its own prefixes; equal to an existing prefixed symbol). Scenario "
               "variables (solver integers, forked by z3) choose for each unit of a scope its class and definition kind (dict, Quantity, dict without magnitude, custom conversion "
               "type), whether the body raises, nesting and repetition; unit magnitudes are solver reals, so 'usable inside the scope' is proved as a conversion identity for all "
               "values. After the outermost scope has ended in any way the global tables must equal their initial snapshot and the custom symbols must be unusable. "
               "DIP texts with $unit lines whose j-th statement fails are run the same way. This is the thinnest use of the solver in the suite: it enumerates a finite protocol space.")
ASSUMPTIONS = unitkit.UNITS_STUB_TEXT + [
    "completeness of the four symbol classes is re-checked on every run by an AST pass over unit_environment.py (uses of `symbol` must be membership test, table key, list element, prefix concatenation)",
]
OUTSIDE = ['more than 3 units per scope, nesting deeper than 2', 'concurrent use of the process-wide tables from several threads']
BOUNDS = {'quick': '<= 2 units per scope (4 classes x 6 kinds each), body raises or not, 5 scope shapes (with / explicit close / nested / repeated / overlapping, older scope closed first); 14 DIP texts',
          'thorough': '<= 3 units per scope'}
EXHAUSTIVE = {'quick': True, 'thorough': True}
PRE = '''
from scinumtools.units import Quantity, UnitEnvironment
from scinumtools.units.settings import UNIT_STANDARD, UNIT_PREFIXES, UNIT_TYPES
from scinumtools.units.unit_types import StandardUnitType, TemperatureUnitType
SYMBOLS = [['qa', 'qb', 'qc'], ['m', 'g', 's'], ['ol', 'in', 'ol'], ['km', 'mmol', 'kJ']]   # per class: fresh / existing / collides through own prefixes / equals a prefixed symbol
class MyType(StandardUnitType):
    pass
class MyType2(StandardUnitType):
    pass
ORIG_TYPES = list(UNIT_TYPES)
def pristine():
    """harness hygiene: every path starts from the library's own tables (a leak found on one path must not pollute the next)"""
    for row in SYMBOLS:
        for s in row + [x + 'x' for x in row]:
            if s in UNIT_STANDARD and s not in ('m', 'g', 's', 'in'):
                del UNIT_STANDARD[s]
    for s in ('outer1', '[len]', '[tim]'):
        if s in UNIT_STANDARD: del UNIT_STANDARD[s]
    UNIT_TYPES[:] = ORIG_TYPES
def snapshot():
    return ([(k, tuple(r.data().values()) if not hasattr(r.magnitude, 't') else None) for k, r in UNIT_STANDARD.items()],
            [(k, tuple(r.data().values())) for k, r in UNIT_PREFIXES.items()], list(UNIT_TYPES))
def pick(sel, n):
    """index 0..n-1 chosen by a (possibly symbolic) integer: forks in the symbolic run"""
    for i in range(n - 1):
        if sel == i: return i
    return n - 1
def make_units(v, count):
    units = {}
    for u in range(count):
        cls = pick(getattr(v, f'cls{u}'), 4); kind = pick(getattr(v, f'kind{u}'), 6)
        sym = SYMBOLS[cls][u]
        x = getattr(v, f'x{u}')
        if kind == 0: d = {'magnitude': x, 'dimensions': [1, 0, 0, 0, 0, 0, 0, 0], 'prefixes': True if cls == 2 else False}
        elif kind == 1: d = Quantity(x, 'm')
        elif kind == 2: d = {'dimensions': [1, 0, 0, 0, 0, 0, 0, 0]}                     # malformed: no magnitude
        elif kind == 5: d = {'dimensions': [1, 0, 0, 0, 0, 0, 0, 0], 'definition': MyType2}       # malformed (no magnitude) and carrying a conversion type that is not registered yet
        elif kind == 4: d = {'magnitude': x, 'dimensions': [1, 0, 0, 0, 0, 0, 0, 0], 'definition': TemperatureUnitType}   # a conversion type that is already registered
        else: d = {'magnitude': x, 'dimensions': [1, 0, 0, 0, 0, 0, 0, 0], 'definition': MyType, 'prefixes': ['k'] if cls == 2 else False}
        if sym in units:
            sym = sym + 'x'
        units[sym] = d
    return units
def body(v, O, out, units, tag):
    # a fresh unit defined by a magnitude in metres must convert accordingly while the scope is open
    for u, (sym, d) in enumerate(units.items()):
        x = getattr(v, f'x{u}')
        if sym in UNIT_STANDARD and not (isinstance(d, dict) and d.get('definition') is TemperatureUnitType):
            out.append((f'{tag}: {sym} usable inside the scope', O.eq(Quantity(2, sym).value('m'), 2 * x, 1e-9)))
'''
SRC = '''
def run(v, O):
    pristine()
    before = snapshot()
    out = []
    units = make_units(v, v.count)
    shape = v.shape
    raised = False
    try:
        if shape == 'with':
            with UnitEnvironment(units):
                body(v, O, out, units, 'with')
                if v.body_raises: raise RuntimeError('body failed')
        elif shape == 'close':
            ue = UnitEnvironment(units)
            try:
                body(v, O, out, units, 'close')
                if v.body_raises: raise RuntimeError('body failed')
            finally:
                ue.close()
        elif shape == 'nested':
            with UnitEnvironment({'outer1': {'magnitude': v.x0, 'dimensions': [1, 0, 0, 0, 0, 0, 0, 0]}}):
                with UnitEnvironment(units):
                    body(v, O, out, units, 'nested')
                    if v.body_raises: raise RuntimeError('body failed')
                out.append(('outer unit still usable after the inner scope', O.eq(Quantity(1, 'outer1').value('m'), v.x0, 1e-9)))
        elif shape == 'overlap':
            # two scopes whose lifetimes overlap without nesting: the older one is closed first
            first = UnitEnvironment({'outer1': {'magnitude': v.x0, 'dimensions': [1, 0, 0, 0, 0, 0, 0, 0], 'definition': MyType2}})
            try:
                second = UnitEnvironment(units)
            except Exception:
                first.close()
                raise
            try:
                body(v, O, out, units, 'overlap')
            finally:
                types_mid0 = list(UNIT_TYPES)
                first.close()
                out.append(('closing the older scope removes exactly its own conversion type', O.same([t for t in types_mid0 if t is not MyType2], list(UNIT_TYPES))))
                body(v, O, out, units, 'overlap, older scope closed')
                second.close()
            if v.body_raises: raise RuntimeError('body failed')
        elif shape == 'repeat':
            for rep in (0, 1):
                try:
                    with UnitEnvironment(units):
                        body(v, O, out, units, f'repeat{rep}')
                        if v.body_raises and rep == 0: raise RuntimeError('body failed')
                except RuntimeError:
                    pass
    except Exception:
        raised = True
    after = snapshot()
    out.append(('unit table restored', O.same(after[0], before[0])))
    out.append(('prefix table restored', O.same(after[1], before[1])))
    out.append(('conversion types restored', O.same(after[2], before[2])))
    fresh = [x for row in (SYMBOLS[0], SYMBOLS[2]) for x in row] + ['outer1']
    for sym in list(units) + ['outer1']:
        if sym in fresh and sym not in [k for k, _ in before[0]]:
            out.append((f'{sym} unusable outside the scope', O.raises(lambda sym=sym: Quantity(1, sym))))
    pristine()
    return out
'''


DIPPRE = PRE + '''
from scinumtools.dip import DIP, Format
def dip_outcome(text, base=None):
    try:
        with DIP(base) as p:
            p.add_string(text)
            return ('ok', p.parse())
    except Exception as e:
        return ('raised', type(e).__name__)
def subst(O, v, text):
    import re as _r
    return _r.sub(r'\\{(\\w+)\\}', lambda m: O.lit(getattr(v, m.group(1))), text)
'''
DIP_SRC2 = '''
def run(v, O):
    out = []
    for label, text, should_parse in v.cases:
        before = snapshot()
        r = dip_outcome(subst(O, v, text))
        after = snapshot()
        out.append((f'{label}: unit table restored', O.same(after[0], before[0])))
        out.append((f'{label}: conversion types restored', O.same(after[2], before[2])))
        out.append((f'{label}: custom unit unusable afterwards', O.raises(lambda: Quantity(1, '[len]'))))
        if should_parse is not None:
            out.append((f'{label}: ' + ('parses' if should_parse else 'is rejected'), O.same(r[0] == 'ok', should_parse)))
        if r[0] == 'ok' and label == 'custom unit used in a definition':
            out.append(('custom unit converts inside the parse', O.eq(r[1].data(Format.VALUE)['b'], v.x * v.y / 100, 1e-9)))
    # parsing on top of an environment that carries custom units
    r = dip_outcome(subst(O, v, '$unit len = {x} cm\\na float = {y} [len]'))
    if r[0] == 'ok':
        before = snapshot()
        r2 = dip_outcome(subst(O, v, 'c float = {y} [len]\\nc = {x} s'), r[1])
        out.append(('second parse on a base environment: unit table restored', O.same(snapshot()[0], before[0])))
    return out
'''


def symbol_uses():
    """how unit_environment.py uses the loop variable `symbol` (completeness of the 4 behavioural classes)"""
    import scinumtools.units.unit_environment as M
    tree = ast.parse(inspect.getsource(M))
    uses = []
    for node in ast.walk(tree):
        if isinstance(node, ast.Name) and node.id == 'symbol' and isinstance(node.ctx, ast.Load):
            uses.append(node)
    parents = {}
    for node in ast.walk(tree):
        for ch in ast.iter_child_nodes(node):
            parents[ch] = node
    kinds = set()
    for u in uses:
        p = parents[u]
        if isinstance(p, ast.Compare):
            kinds.add('membership' if any(isinstance(o, (ast.In, ast.NotIn)) for o in p.ops) else 'compare')
        elif isinstance(p, ast.Call):
            kinds.add('call-arg:' + (p.func.attr if isinstance(p.func, ast.Attribute) else getattr(p.func, 'id', '?')))
        elif isinstance(p, ast.FormattedValue):
            kinds.add('format')
        elif isinstance(p, ast.Assign):
            kinds.add('assign')
        elif isinstance(p, ast.Subscript):
            kinds.add('subscript')
        else:
            kinds.add(type(p).__name__)
    return kinds


ALLOWED_USES = {'membership', 'call-arg:Exception', 'call-arg:append', 'format', 'assign', 'subscript', 'Tuple'}


def scenarios(tier, seed):
    S = []
    counts = (1, 2) if tier == 'quick' else (1, 2, 3)
    for count in counts:
        for shape in ('with', 'close', 'nested', 'repeat', 'overlap'):
            for raises in (False, True):
                inp = {}
                pre = []
                for u in range(count):
                    inp[f'cls{u}'] = 'int'
                    inp[f'kind{u}'] = 'int'
                    inp[f'x{u}'] = 'real'
                    pre += [f'v.cls{u} >= 0', f'v.cls{u} <= 3', f'v.kind{u} >= 0', f'v.kind{u} <= 5', f'v.x{u} > 0']
                if 'x0' not in inp:
                    inp['x0'] = 'real'
                S.append(Scenario(f'scope/{shape}/{count}/{"raise" if raises else "return"}', SRC, inp, pre, consts={'count': count, 'shape': shape, 'body_raises': raises},
                                  preamble=PRE, what=f'{shape} scope with {count} custom units, body {"raises" if raises else "returns"}', samples=2))
    dipcases = [('custom unit used in a definition', '$unit len = {x} cm\na float = {y} [len]\nb float = 1 m\nb = {y} [len]\n', None),
                ('duplicate unit name', '$unit len = {x} cm\na float = {y} [len]\n$unit len = {y} m', False),
                ('unknown unit in a later definition', '$unit len = {x} cm\na float = {y} [len]\nb float = {x} foo', False),
                ('dimension clash in a modification', '$unit len = {x} cm\na float = {y} [len]\na = {x} s', False),
                ('dimension clash in an option', '$unit len = {x} cm\na float = {y} [len]\n  = {x} s', False),
                ('custom unit in a numerical expression', '$unit len = {x} cm\na float = {y} [len]\nb float = ("{?a} * 2") cm', None),
                ('custom unit in a failing condition', '$unit len = {x} cm\na float = 1 [len]\n  !condition ("{?} > 2 [len]")', False),
                ('custom unit in a case expression', '$unit len = {x} cm\na float = {y} [len]\n@case ("{?a} > 1 [len]")\n  c int = 1\n@else\n  c int = 2', None),
                ('two custom units, second definition malformed', '$unit len = {x} cm\n$unit tim = {y}\na float = 1 [len]\nb float = 1 [tim]\nb = 1 [len]', False),
                ('second $unit line refers to an unknown unit', '$unit len = {x} cm\n$unit wid = {y} [lenght]\na float = 1 [len]', False),
                ('second $unit line refers to an unknown plain unit', '$unit len = {x} cm\n$unit area = {y} foo2\na float = 1 [len]', False),
                ('third $unit line built from the first two fails', '$unit len = {x} cm\n$unit tim = {y} s\n$unit spd = 2 [len]/[tom]\na float = 1 [len]', False),
                ('second $unit line built from the first one succeeds', '$unit len = {x} cm\n$unit dbl = 2 [len]\na float = {y} [dbl]', None),
                ('integer node with custom unit, bad later line', '$unit len = {x} cm\nk int = 3 [len]\nq qqq = 1', False)]
    S.append(Scenario('dip', DIP_SRC2, {'x': 'real', 'y': 'real'}, ['v.x > 0', 'v.y > 0'], consts={'cases': dipcases}, preamble=DIPPRE,
                      what='DIP texts with $unit lines where a later statement fails', samples=2))
    S.append(Scenario('canary/leak', SRC.replace("    after = snapshot()\n", "    UNIT_STANDARD.append('leak', (1.0, [0] * 8, None, 'leak', False))\n    after = snapshot()\n    del UNIT_STANDARD['leak']\n"),
                      {'cls0': 'int', 'kind0': 'int', 'x0': 'real'}, ['v.cls0 >= 0', 'v.cls0 <= 3', 'v.kind0 >= 0', 'v.kind0 <= 4', 'v.x0 > 0'],
                      consts={'count': 1, 'shape': 'with', 'body_raises': False}, preamble=PRE, canary=True))
    return S


NT = 16


def tasks(tier, seed):
    return [{'id': f'c09-{i:02d}', 'tier': tier, 'seed': seed, 'slice': [i, NT]} for i in range(NT)]


def run_task(task):
    S = scenarios(task['tier'], task['seed'])
    i, k = task['slice']
    from harness import dipkit
    res = run_scenarios(S[i::k], dipkit.dip_patches, timeout_ms=20000, seed=task['seed'], wall_s=600, max_paths=20000)
    if i == 0:
        kinds = symbol_uses()
        if not kinds <= ALLOWED_USES:
            res['inconclusive'].append(f"unit_environment.py uses `symbol` in a new way {sorted(kinds - ALLOWED_USES)}: the four behavioural classes may be incomplete")
        res['samples'].append({'symbol_uses': sorted(kinds)})
    return res
