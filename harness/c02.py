"""C02 - a solver instance is unaffected by what it solved before."""
import ast
import inspect
import random
import re

from symx import stubs
from vf.scen import Scenario, run_scenarios
from harness import exprkit

PROPERTY = 'C02'
ENCODED = ['scinumtools.solver.solver:ExpressionSolver.__init__', 'scinumtools.solver.solver:ExpressionSolver.solve', 'scinumtools.solver.tokens:Tokens',
           'scinumtools.solver.operators:OperatorPar.__init__', 'scinumtools.solver.atom:AtomBase.__init__']
EXPLANATION = ("Histories [e1, (e2,) probe] are run on ONE solver instance, where e1/e2 are well-formed or fail part-way (unknown atom at the j-th leaf, atom constructor raising, "
               "missing ')', missing operand, wrong arity); the probe is also solved on a fresh instance. All numeric leaves are solver variables; on every path z3 proves that the "
               "k-th call returns the same value term / raises the same exception type as the fresh instance. An AST frame check of solve() (regenerated each run) lists the "
               "instance attributes it reads and writes and fails closed if state other than tokens/expr appears, which is what lets bounded histories stand for longer ones.")
ASSUMPTIONS = [
    "name `float` in scinumtools.solver.atom is symx.Float (sentinel numerals map to solver variables)",
    "leaves are non-negative reals; division assumes a non-zero divisor",
    "frame: ExpressionSolver.solve only touches self.tokens / self.expr / self.operators / self.steps (checked on the AST each run); operators and steps are never written",
]
OUTSIDE = ['histories longer than 3 calls (covered by the frame argument, not enumerated)', 'operators that keep state of their own in user subclasses']
BOUNDS = {'quick': '5 solver configurations x 18 probes x fault kinds at every leaf position of 10 expressions, history length 2 and 3',
          'thorough': 'same with 60 sampled 3-operator expressions as first/second call'}
EXHAUSTIVE = {'quick': False, 'thorough': False}
PRE = "from scinumtools.solver import *\n" + exprkit.EXPR_SRC + '''
def make_solver(cfg, v):
    if cfg == 'default':
        return ExpressionSolver(AtomBase)
    if cfg == 'custom-atom':
        class Atom(AtomBase):
            def __init__(self, value):
                if isinstance(value, str):
                    value = value.strip()
                    if value == 'foo': self.value = v.foo
                    elif value == 'bar': self.value = v.bar
                    elif value == 'boom': raise RuntimeError('atom constructor failed')
                    else: self.value = float(value)
                else:
                    self.value = value
        return ExpressionSolver(Atom)
    if cfg == 'subset':
        operators = {'par': OperatorPar, 'mul': OperatorMul, 'add': OperatorAdd}
        steps = [dict(operators=['par'], otype=Otype.ARGS), dict(operators=['mul'], otype=Otype.BINARY), dict(operators=['add'], otype=Otype.BINARY)]
        return ExpressionSolver(AtomBase, operators, steps)
    if cfg == 'uncovered':   # an operator that is tokenised but belongs to no step
        operators = {'add': OperatorAdd, 'sub': OperatorSub}
        steps = [dict(operators=['add'], otype=Otype.BINARY)]
        return ExpressionSolver(AtomBase, operators, steps)
    if cfg == 'custom-steps':
        operators = {'par': OperatorPar, 'mul': OperatorMul, 'add': OperatorAdd, 'sub': OperatorSub}
        steps = [dict(operators=['par'], otype=Otype.ARGS), dict(operators=['add', 'sub'], otype=Otype.BINARY), dict(operators=['mul'], otype=Otype.BINARY)]
        return ExpressionSolver(AtomBase, operators, steps)
def outcome(fn):
    try:
        return ('value', fn().value)
    except Exception as e:
        return ('raised', type(e).__name__)
def subst(O, v, text):
    """replace {name} placeholders by the literal of v.name"""
    import re as _re2
    return _re2.sub(r'\\{(\\w+)\\}', lambda m: O.lit(getattr(v, m.group(1))), text)
'''
SRC = '''
def run(v, O):
    es = make_solver(v.cfg, v)
    hist = []
    for text in v.history:
        hist.append(outcome(lambda: es.solve(subst(O, v, text))))
    got = outcome(lambda: es.solve(subst(O, v, v.probe)))
    want = outcome(lambda: make_solver(v.cfg, v).solve(subst(O, v, v.probe)))
    out = [('same kind of outcome as a fresh instance', O.same(got[0], want[0]))]
    if got[0] == want[0] == 'value':
        out.append(('same value as a fresh instance', O.veq(got[1], want[1])))
    elif got[0] == want[0]:
        out.append(('same exception type as a fresh instance', O.same(got[1], want[1])))
    # the earlier calls themselves must have behaved like calls on fresh instances
    for i, text in enumerate(v.history):
        w = outcome(lambda: make_solver(v.cfg, v).solve(subst(O, v, text)))
        out.append((f'call {i + 1}: outcome kind as on a fresh instance', O.same(hist[i][0], w[0])))
        if hist[i][0] == w[0] == 'value':
            out.append((f'call {i + 1}: value as on a fresh instance', O.veq(hist[i][1], w[1])))
    return out
'''

# texts use {a}..{f} placeholders for symbolic leaves
OK = {'default': ['{a}+{b}*{c}', '({a}-{b})/{c}', '{a}**2', 'sqrt({a})+logb({b},{c})', '{a}<{b}&&{c}', '-{a}*{b}', '!{a}||{b}'],
      'custom-atom': ['foo+{a}*bar', '({a}-foo)/bar', 'foo<bar&&{a}', '{a}*{b}'],
      'uncovered': ['{a}+{b}', '{a}+{b}+{c}'],
      'subset': ['{a}+{b}*{c}', '({a}+{b})*{c}', '{a}*{b}'],
      'custom-steps': ['{a}+{b}*{c}', '{a}-{b}*{c}', '({a}*{b})-{c}']}
BAD = {'default': ['{a}+{b}+x', 'x+{a}*{b}', '{a}*x+{b}', '{a}+({b}*{c}', '{a}*(({b}+{c})', '{a}+{b}*', '{a}*{b}+', '*{a}+{b}', '{a}+logb({b})', 'sin({a},{b})+{c}',
                   '{a}+{b})', '{a} {b}', '{a}+{b}+sqrt(x)', '{a}<', '{a}&&', '({a}+x)*{b}', '{a}**', '{a}/({b}-x)',
                   '({a})({b})', '({a}) {b}', 'sqrt({a}) ({b})', '{a}({b})'],
       'custom-atom': ['foo+{a}+boom', 'boom*{a}', '{a}+foo*(bar+boom)', 'foo+qux', '{a}*(foo', 'foo*', '{a}+bar+'],
       'uncovered': ['{a}-{b}', '{a}+{b}-{c}', '{a}-x'],
       'subset': ['{a}+{b}+x', '{a}*({b}+{c}', '{a}+{b}*', '{a}-{b}', '{a}/{b}'],
       'custom-steps': ['{a}+{b}*x', '{a}-({b}*{c}', '{a}*{b}-', '{a}/{b}']}
PROBE = {'default': ['{d}*{e}', '{d}+{e}*{f}', '({d}+{e})*{f}', '{d}<{e}', '-{d}', 'sqrt({d})', '{d}*y'],
         'custom-atom': ['{d}*bar', 'foo+{d}', '{d}*boom'],
         'uncovered': ['{d}+{e}', '{d}', '{d}+{e}+{f}'],
         'subset': ['{d}*{e}', '{d}+{e}*{f}', '({d}+{e})*{f}'],
         'custom-steps': ['{d}*{e}', '{d}+{e}*{f}', '{d}-{e}*{f}']}


def frame_check():
    """attributes of self that solve() reads / writes"""
    import scinumtools.solver.solver as M
    src = inspect.getsource(M.ExpressionSolver.solve)
    tree = ast.parse(src.lstrip() if not src.startswith('    ') else 'class _:\n' + src)
    reads, writes = set(), set()
    for node in ast.walk(tree):
        if isinstance(node, ast.Attribute) and isinstance(node.value, ast.Name) and node.value.id == 'self':
            (writes if isinstance(node.ctx, ast.Store) else reads).add(node.attr)
    return reads, writes


def scenarios(tier, seed):
    rnd = random.Random(seed)
    S = []
    names = {n: 'real' for n in 'abcdef'}
    names.update({'foo': 'real', 'bar': 'real'})
    pre = [f'v.{n} >= 0' for n in names]
    for cfg in ('default', 'custom-atom', 'subset', 'custom-steps', 'uncovered'):
        probes = PROBE[cfg]
        k = 0
        for bad in BAD[cfg]:
            for probe in (probes if tier != 'quick' else probes[: 4]):
                k += 1
                S.append(Scenario(f'{cfg}/fail-then-probe/{bad}/{probe}', SRC, names, pre, consts={'cfg': cfg, 'history': [bad], 'probe': probe}, preamble=PRE,
                                  what=f'[{bad!r}, {probe!r}] on one {cfg} solver', samples=1))
            ok = OK[cfg][k % len(OK[cfg])]
            probe = probes[k % len(probes)]
            S.append(Scenario(f'{cfg}/ok-fail-probe/{ok}/{bad}/{probe}', SRC, names, pre, consts={'cfg': cfg, 'history': [ok, bad], 'probe': probe}, preamble=PRE,
                              what=f'[{ok!r}, {bad!r}, {probe!r}] on one {cfg} solver', samples=1))
            S.append(Scenario(f'{cfg}/fail-fail-probe/{bad}/{probe}', SRC, names, pre, consts={'cfg': cfg, 'history': [bad, BAD[cfg][(k + 3) % len(BAD[cfg])]], 'probe': probe},
                              preamble=PRE, what=f'two failing calls then {probe!r} on one {cfg} solver', samples=1))
        for ok in OK[cfg]:
            for probe in probes[:3]:
                S.append(Scenario(f'{cfg}/ok-then-probe/{ok}/{probe}', SRC, names, pre, consts={'cfg': cfg, 'history': [ok], 'probe': probe}, preamble=PRE,
                                  what=f'[{ok!r}, {probe!r}] on one {cfg} solver', samples=1))
    if tier != 'quick':
        g = exprkit.Gen()
        t3 = rnd.sample([t for t in g.all(3) if not exprkit.fn_of_bool(t)], 60)
        ns = {}
        exec(exprkit.EXPR_SRC, ns)

        class _O:
            def __init__(self):
                self.n = 0

            def lit(self, x):
                return x
        for j, t in enumerate(t3):
            lv = exprkit.leaves(t)
            class _V:
                pass
            vv = _V()
            for i, n in enumerate(lv):
                setattr(vv, n, '{' + 'abc'[i % 3] + '}')
            text = ns['render'](_O(), vv, t, j % 3)
            cut = rnd.randrange(1, max(2, len(text)))
            bad = text[:cut] + 'x' + text[cut:] if j % 2 else text + '*'
            S.append(Scenario(f'default/sampled/{j}', SRC, names, pre, consts={'cfg': 'default', 'history': [text, bad], 'probe': PROBE['default'][j % 6]}, preamble=PRE,
                              what=f'[{text!r}, {bad!r}, probe] on one default solver', samples=1))
    S.append(Scenario('canary/history', SRC.replace("O.veq(got[1], want[1])", "O.veq(got[1], want[1] + 1)"), names, pre,
                      consts={'cfg': 'default', 'history': ['{a}+{b}'], 'probe': '{d}*{e}'}, preamble=PRE, canary=True))
    return S


NT = 16


def tasks(tier, seed):
    return [{'id': f'c02-{i:02d}', 'tier': tier, 'seed': seed, 'slice': [i, NT]} for i in range(NT)]


def patches():
    return stubs.patched([('scinumtools.solver.atom', 'float', stubs.Float)])


def run_task(task):
    S = scenarios(task['tier'], task['seed'])
    i, k = task['slice']
    res = run_scenarios(S[i::k], patches, timeout_ms=20000, seed=task['seed'], wall_s=600)
    if i == 0:
        reads, writes = frame_check()
        allowed_w = {'tokens', 'expr'}
        allowed_r = {'tokens', 'expr', 'operators', 'steps'}
        if not writes <= allowed_w or not reads <= allowed_r:
            res['inconclusive'].append(f"frame check: solve() reads {sorted(reads)} and writes {sorted(writes)}; state beyond tokens/expr is not covered by the bounded histories")
        res['samples'].append({'frame_check': {'reads': sorted(reads), 'writes': sorted(writes)}})
    return res
