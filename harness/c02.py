"""C02 - a solver instance is unaffected by what it solved before."""
import ast
import inspect
import random
import re

from symx import stubs
from vf.scen import Scenario, run_scenarios
from harness import exprkit

PROPERTY = 'C02'
ENCODED = ['scinumtools.solver.expression:Expression', 'scinumtools.solver.tokens:Tokens.operate', 'scinumtools.solver.solver:ExpressionSolver.__init__', 'scinumtools.solver.solver:ExpressionSolver.solve', 'scinumtools.solver.tokens:Tokens',
           'scinumtools.solver.operators:OperatorPar.__init__', 'scinumtools.solver.atom:AtomBase.__init__']
EXPLANATION = ("Histories [e1, (e2,) probe] are run on ONE solver instance, where e1/e2 are well-formed or fail part-way (unknown atom at the j-th leaf, atom constructor raising, "
               "missing ')', missing operand, wrong arity); the probe is also solved on a fresh instance. All numeric leaves are solver variables; on every path z3 proves that the "
               "k-th call returns the same value term / raises the same exception type as the fresh instance. An AST frame check of solve() (regenerated each run) lists the "
               "instance attributes it reads and writes and fails closed if state other than tokens/expr appears, which is what lets bounded histories stand for longer ones. "
               "Character level (default configuration): the first text has free characters (symx.SymStr, printable non-letter ASCII) - any string up to the bound, any 3 characters before a probe, "
               "or a well-formed text with one free character - the second text is free or a probe; the outcome of the second call on the used instance must equal the outcome on a fresh "
               "instance (kind, error type, value) on every path. The fresh instance is the oracle, no reference evaluator is involved.")
ASSUMPTIONS = [
    "name `float` in scinumtools.solver.atom is symx.Float (sentinel numerals map to solver variables)",
    "leaves are non-negative reals; division assumes a non-zero divisor",
    "character level: same stubs and alphabet as C01 (names str/float of solver.solver and solver.atom; free characters are printable ASCII without letters and underscore); paths with non-finite concrete sub-expressions carry no claim",
    "frame: ExpressionSolver.solve only touches self.tokens / self.expr / self.operators / self.steps (checked on the AST each run); operators and steps are never written",
]
OUTSIDE = ['histories longer than 3 calls (covered by the frame argument, not enumerated)', 'operators that keep state of their own in user subclasses']
BOUNDS = {'quick': '5 solver configurations x 18 probes x fault kinds at every leaf position of 10 expressions, history length 2 and 3; character level: first text <= 2 free characters then 1 free character, any 3 characters then 3 probes, one free character in 6 rendered texts then a text with one free character',
          'thorough': 'same with 60 sampled 3-operator expressions as first/second call; character level: first text <= 3 / second <= 2 free characters, 12 probes, 30 rendered texts'}
EXHAUSTIVE = {'quick': False, 'thorough': False}
PRE = "from scinumtools.solver import *\n" + exprkit.EXPR_SRC + '''
def make_solver(cfg, v):
    if cfg == 'default':
        return ExpressionSolver(AtomBase)
    if cfg == 'custom-atom':
        class Atom(AtomBase):
            def __init__(self, value):
                if isinstance(value, str):
                    value = value.strip()
                    if value == 'foo': self.value = v.foo
                    elif value == 'bar': self.value = v.bar
                    elif value == 'boom': raise RuntimeError('atom constructor failed')
                    else: self.value = float(value)
                else:
                    self.value = value
        return ExpressionSolver(Atom)
    if cfg == 'subset':
        operators = {'par': OperatorPar, 'mul': OperatorMul, 'add': OperatorAdd}
        steps = [dict(operators=['par'], otype=Otype.ARGS), dict(operators=['mul'], otype=Otype.BINARY), dict(operators=['add'], otype=Otype.BINARY)]
        return ExpressionSolver(AtomBase, operators, steps)
    if cfg == 'uncovered':   # an operator that is tokenised but belongs to no step
        operators = {'add': OperatorAdd, 'sub': OperatorSub}
        steps = [dict(operators=['add'], otype=Otype.BINARY)]
        return ExpressionSolver(AtomBase, operators, steps)
    if cfg == 'custom-steps':
        operators = {'par': OperatorPar, 'mul': OperatorMul, 'add': OperatorAdd, 'sub': OperatorSub}
        steps = [dict(operators=['par'], otype=Otype.ARGS), dict(operators=['add', 'sub'], otype=Otype.BINARY), dict(operators=['mul'], otype=Otype.BINARY)]
        return ExpressionSolver(AtomBase, operators, steps)
def outcome(fn):
    try:
        return ('value', fn().value)
    except Exception as e:
        return ('raised', type(e).__name__)
def subst(O, v, text):
    """replace {name} placeholders by the literal of v.name"""
    import re as _re2
    return _re2.sub(r'\\{(\\w+)\\}', lambda m: O.lit(getattr(v, m.group(1))), text)
'''
SRC = '''
def run(v, O):
    es = make_solver(v.cfg, v)
    hist = []
    for text in v.history:
        hist.append(outcome(lambda: es.solve(subst(O, v, text))))
    wrap = (lambda t: Expression(t)) if getattr(v, 'as_expression', False) else (lambda t: t)     # solve() accepts a str or an Expression object
    got = outcome(lambda: es.solve(wrap(subst(O, v, v.probe))))
    want = outcome(lambda: make_solver(v.cfg, v).solve(wrap(subst(O, v, v.probe))))
    out = [('same kind of outcome as a fresh instance', O.same(got[0], want[0]))]
    if got[0] == want[0] == 'value':
        out.append(('same value as a fresh instance', O.veq(got[1], want[1])))
    elif got[0] == want[0]:
        out.append(('same exception type as a fresh instance', O.same(got[1], want[1])))
    # the earlier calls themselves must have behaved like calls on fresh instances
    for i, text in enumerate(v.history):
        w = outcome(lambda: make_solver(v.cfg, v).solve(subst(O, v, text)))
        out.append((f'call {i + 1}: outcome kind as on a fresh instance', O.same(hist[i][0], w[0])))
        if hist[i][0] == w[0] == 'value':
            out.append((f'call {i + 1}: value as on a fresh instance', O.veq(hist[i][1], w[1])))
    return out
'''
ENV_SRC = '''
def run(v, O):
    # atoms that read names from outside state (the documentation's foo/bar example): after the state changed, a used instance answers like a fresh one;
    # an atom handed back to the caller and modified there does not come back in a later call
    env = {'foo': v.a, 'bar': v.b}
    class Atom(AtomBase):
        def __init__(self, value):
            if isinstance(value, str):
                value = value.strip()
                self.value = env[value] if value in env else float(value)
            else:
                self.value = value
    mk = lambda: ExpressionSolver(Atom)
    es = mk()
    out = []
    first = outcome(lambda: es.solve(v.first))
    out.append(('first call as on a fresh instance', O.same(first[0], 'value') and O.veq(first[1], mk().solve(v.first).value)))
    env['foo'] = v.c; env['bar'] = v.d
    for text in v.later:
        got = outcome(lambda: es.solve(text))
        want = outcome(lambda: mk().solve(text))
        out.append((f'{text} after the outside values changed: as on a fresh instance', O.same(got[0], want[0]) and (O.veq(got[1], want[1]) if got[0] == 'value' else True)))
    es2 = ExpressionSolver(AtomBase)
    r = es2.solve(O.lit(v.e))
    r.value = v.f                      # the caller owns the result
    got = outcome(lambda: es2.solve(O.lit(v.e) + ' + 1'))
    out.append(('a result modified by the caller does not come back', O.same(got[0], 'value') and O.veq(got[1], v.e + 1)))
    return out
'''

# texts use {a}..{f} placeholders for symbolic leaves
OK = {'default': ['{a}+{b}*{c}', '({a}-{b})/{c}', '{a}**2', 'sqrt({a})+logb({b},{c})', '{a}<{b}&&{c}', '-{a}*{b}', '!{a}||{b}'],
      'custom-atom': ['foo+{a}*bar', '({a}-foo)/bar', 'foo<bar&&{a}', '{a}*{b}'],
      'uncovered': ['{a}+{b}', '{a}+{b}+{c}'],
      'subset': ['{a}+{b}*{c}', '({a}+{b})*{c}', '{a}*{b}'],
      'custom-steps': ['{a}+{b}*{c}', '{a}-{b}*{c}', '({a}*{b})-{c}']}
BAD = {'default': ['{a}+{b}+x', 'x+{a}*{b}', '{a}*x+{b}', '{a}+({b}*{c}', '{a}*(({b}+{c})', '{a}+{b}*', '{a}*{b}+', '*{a}+{b}', '{a}+logb({b})', 'sin({a},{b})+{c}',
                   '{a}+{b})', '{a} {b}', '{a}+{b}+sqrt(x)', '{a}<', '{a}&&', '({a}+x)*{b}', '{a}**', '{a}/({b}-x)',
                   '({a})({b})', '({a}) {b}', 'sqrt({a}) ({b})', '{a}({b})'],
       'custom-atom': ['foo+{a}+boom', 'boom*{a}', '{a}+foo*(bar+boom)', 'foo+qux', '{a}*(foo', 'foo*', '{a}+bar+'],
       'uncovered': ['{a}-{b}', '{a}+{b}-{c}', '{a}-x'],
       'subset': ['{a}+{b}+x', '{a}*({b}+{c}', '{a}+{b}*', '{a}-{b}', '{a}/{b}'],
       'custom-steps': ['{a}+{b}*x', '{a}-({b}*{c}', '{a}*{b}-', '{a}/{b}']}
PROBE = {'default': ['{d}*{e}', '{d}+{e}*{f}', '({d}+{e})*{f}', '{d}<{e}', '-{d}', 'sqrt({d})', '{d}*y'],
         'custom-atom': ['{d}*bar', 'foo+{d}', '{d}*boom'],
         'uncovered': ['{d}+{e}', '{d}', '{d}+{e}+{f}'],
         'subset': ['{d}*{e}', '{d}+{e}*{f}', '({d}+{e})*{f}'],
         'custom-steps': ['{d}*{e}', '{d}+{e}*{f}', '{d}-{e}*{f}']}


def frame_check():
    """attributes of self that solve() reads / writes"""
    import scinumtools.solver.solver as M
    src = inspect.getsource(M.ExpressionSolver.solve)
    tree = ast.parse(src.lstrip() if not src.startswith('    ') else 'class _:\n' + src)
    reads, writes = set(), set()
    for node in ast.walk(tree):
        if isinstance(node, ast.Attribute) and isinstance(node.value, ast.Name) and node.value.id == 'self':
            (writes if isinstance(node.ctx, ast.Store) else reads).add(node.attr)
    return reads, writes


def scenarios(tier, seed):
    rnd = random.Random(seed)
    S = []
    names = {n: 'real' for n in 'abcdef'}
    names.update({'foo': 'real', 'bar': 'real'})
    pre = [f'v.{n} >= 0' for n in names]
    for cfg in ('default', 'custom-atom', 'subset', 'custom-steps', 'uncovered'):
        probes = PROBE[cfg]
        k = 0
        for bad in BAD[cfg]:
            for probe in (probes if tier != 'quick' else probes[: 4]):
                k += 1
                S.append(Scenario(f'{cfg}/fail-then-probe/{bad}/{probe}', SRC, names, pre, consts={'cfg': cfg, 'history': [bad], 'probe': probe}, preamble=PRE,
                                  what=f'[{bad!r}, {probe!r}] on one {cfg} solver', samples=1))
            ok = OK[cfg][k % len(OK[cfg])]
            probe = probes[k % len(probes)]
            S.append(Scenario(f'{cfg}/ok-fail-probe/{ok}/{bad}/{probe}', SRC, names, pre, consts={'cfg': cfg, 'history': [ok, bad], 'probe': probe}, preamble=PRE,
                              what=f'[{ok!r}, {bad!r}, {probe!r}] on one {cfg} solver', samples=1))
            S.append(Scenario(f'{cfg}/fail-fail-probe/{bad}/{probe}', SRC, names, pre, consts={'cfg': cfg, 'history': [bad, BAD[cfg][(k + 3) % len(BAD[cfg])]], 'probe': probe},
                              preamble=PRE, what=f'two failing calls then {probe!r} on one {cfg} solver', samples=1))
        for ok in OK[cfg]:
            for probe in probes[:3]:
                S.append(Scenario(f'{cfg}/ok-then-probe/{ok}/{probe}', SRC, names, pre, consts={'cfg': cfg, 'history': [ok], 'probe': probe}, preamble=PRE,
                                  what=f'[{ok!r}, {probe!r}] on one {cfg} solver', samples=1))
    # the probe handed over as an Expression object instead of a str
    for j, bad in enumerate(BAD['default'][:8] + OK['default'][:2]):
        probe = PROBE['default'][j % 6]
        S.append(Scenario(f'default/then-expression-object/{j}', SRC, names, pre, consts={'cfg': 'default', 'history': [bad], 'probe': probe, 'as_expression': True}, preamble=PRE + 'from scinumtools.solver.expression import Expression\n',
                          what=f'[{bad!r}, Expression({probe!r})] on one default solver', samples=1))
    # an accepted call, then a text that differs from it only by blanks (inside an operator symbol or a number the meaning changes, around an operator it does not)
    variants = [('{a}**{b}', '{a}* *{b}'), ('{a}<={b}', '{a}< ={b}'), ('{a}!={b}', '{a}! ={b}'), ('{a}&&{b}', '{a}& &{b}'), ('sqrt({a})', 'sqrt ({a})'), ('{a}{b}', '{a} {b}'),
                ('{a}+{b}*{c}', '{a} + {b} * {c}'), ('{a}-{b}', '{a}- {b}'), ('logb({a},{b})', 'logb( {a} , {b} )'), ('{a}||{b}', '{a}| |{b}')]
    for j, (first, second) in enumerate(variants):
        S.append(Scenario(f'default/accepted-then-respaced/{j}', SRC, names, pre, consts={'cfg': 'default', 'history': [first], 'probe': second}, preamble=PRE,
                          what=f'[{first!r}, {second!r}] on one default solver', samples=1))
        S.append(Scenario(f'default/respaced-then-accepted/{j}', SRC, names, pre, consts={'cfg': 'default', 'history': [second], 'probe': first}, preamble=PRE,
                          what=f'[{second!r}, {first!r}] on one default solver', samples=1))
    if tier != 'quick':
        g = exprkit.Gen()
        t3 = rnd.sample([t for t in g.all(3) if not exprkit.fn_of_bool(t)], 60)
        ns = {}
        exec(exprkit.EXPR_SRC, ns)

        class _O:
            def __init__(self):
                self.n = 0

            def lit(self, x):
                return x
        for j, t in enumerate(t3):
            lv = exprkit.leaves(t)
            class _V:
                pass
            vv = _V()
            for i, n in enumerate(lv):
                setattr(vv, n, '{' + 'abc'[i % 3] + '}')
            text = ns['render'](_O(), vv, t, j % 3)
            cut = rnd.randrange(1, max(2, len(text)))
            bad = text[:cut] + 'x' + text[cut:] if j % 2 else text + '*'
            S.append(Scenario(f'default/sampled/{j}', SRC, names, pre, consts={'cfg': 'default', 'history': [text, bad], 'probe': PROBE['default'][j % 6]}, preamble=PRE,
                              what=f'[{text!r}, {bad!r}, probe] on one default solver', samples=1))
    for j, (first, later) in enumerate([('foo * 2', ['foo * 2', 'foo + bar', '(foo) + 1']), ('foo + bar * 3', ['bar', 'foo - bar', 'sqrt(foo * foo)']), ('(foo + 1) * bar', ['(foo + 1) * bar', 'bar * bar'])]):
        S.append(Scenario(f'outside-state/{j}', ENV_SRC, names, pre, consts={'first': first, 'later': later}, preamble=PRE, what=f'custom atoms reading outside values that change between the calls ({first!r}, then {later})', samples=2))
    S.append(Scenario('canary/history', SRC.replace("O.veq(got[1], want[1])", "O.veq(got[1], want[1] + 1)"), names, pre,
                      consts={'cfg': 'default', 'history': ['{a}+{b}'], 'probe': '{d}*{e}'}, preamble=PRE, canary=True))
    return S


NT = 16


NCH = 24
HIST_SRC = '''
def run(v, O):
    s1 = O.text([getattr(v, p[1:]) if p.startswith('@') else p for p in v.first])
    s2 = O.text([getattr(v, p[1:]) if p.startswith('@') else p for p in v.second])
    with ExpressionSolver(AtomBase) as es:
        lib_outcome(s1, O, es)                 # whatever it does - value, None or an error part-way through
        used = lib_outcome(s2, O, es)
    ref = lib_outcome(s2, O)
    if used == ('raised', 'domain') or ref == ('raised', 'domain') or used[0] == 'nonfinite' or ref[0] == 'nonfinite':
        return [('no claim: non-finite intermediate value', True)]
    out = [('same kind of outcome as a fresh instance', O.same(used[0], ref[0]))]
    if used[0] == ref[0] == 'raised':
        out.append(('same error as a fresh instance', O.same(used[1], ref[1])))
    nonfin = lambda x: isinstance(x, float) and (x != x or x in (float('inf'), -float('inf')))
    if used[0] == ref[0] == 'ok' and (nonfin(used[1]) or nonfin(ref[1])):
        out.append(('both calls give a non-finite number', O.same(nonfin(used[1]) and nonfin(ref[1]), True)))
    elif used[0] == ref[0] == 'ok':
        isb = lambda x: type(x).__name__ in ('bool', 'bool_', 'SymBool')
        out.append(('same value as a fresh instance', O.veq(used[1], ref[1]) if (isb(used[1]) or isb(ref[1])) else O.eq(used[1], ref[1], 1e-12)))
    return out
'''


def hist_scenarios(tier, seed):
    """character level: an arbitrary (mostly ill-formed) first string, then a second string, on one instance vs. a fresh instance"""
    from harness import c01, charkit
    rnd = random.Random(seed + 5)
    pre = c01.PRE + charkit.CHAR_SRC
    S = []
    special = '()*/+-<>=!&|,. '
    cells = [(repr(ch), [f'v.c0 == {ord(ch)}']) for ch in special] + [('digit', ['v.c0 >= 48', 'v.c0 <= 57']),
             ('other', ['z3.And(' + ', '.join(f'v.c0.t != {ord(ch)}' for ch in special) + ', z3.Not(z3.And(v.c0.t >= 48, v.c0.t <= 57)))'])]
    probes = ['1+2', '(3)', '2*(1+2)', 'sin(1)', '-2**2', '1<2&&!0', 'pow(2,3)', '((4))', '1 2', '(1', '2*', 'pow(1)']
    # (A) every first string of <= 2 (thorough 3) free characters, then every second string of <= 2 free characters
    for n1 in (1, 2) if tier == 'quick' else (1, 2, 3):
        for cname, cpre in (cells if n1 >= 2 else [('any', [])]):
            for n2 in (1, 2):
                if n2 == 2 and (n1 == 3 or tier == 'quick'):
                    continue
                inp = {f'c{i}': 'char' for i in range(n1)}
                inp.update({f'd{i}': 'char' for i in range(n2)})
                S.append(Scenario(f'chars/hist/{n1}-{n2}/{cname}', HIST_SRC, inp, cpre, consts={'first': [f'@c{i}' for i in range(n1)], 'second': [f'@d{i}' for i in range(n2)]}, preamble=pre,
                                  what=f'any {n1} characters, then any {n2} characters, on one instance (first character: {cname})', samples=20))
    # (B) every first string of <= 3 free characters, then a fixed probe
    for pi, probe in enumerate(probes if tier != 'quick' else [probes[2], probes[3], probes[9]]):
        for cname, cpre in cells:
            S.append(Scenario(f'chars/hist-probe/{pi}/{cname}', HIST_SRC, {f'c{i}': 'char' for i in range(3)}, cpre, consts={'first': ['@c0', '@c1', '@c2'], 'second': [probe]}, preamble=pre,
                              what=f'any 3 characters, then {probe!r} (first character: {cname})', samples=10))
    # (D) an accepted first text, then the same text with one free character inserted anywhere (a blank there changes the meaning: '12' vs '1 2', '2**3' vs '2* *3')
    for ai, acc in enumerate(['12', '2**3', '4<=5', '1&&1', '1!=2', 'log10(100)', '2.5+1', '(7)'] if tier != 'quick' else ['12', '2**3', '4<=5', 'log10(100)']):
        for p in range(1, len(acc)):
            S.append(Scenario(f'chars/hist-accepted/{ai}@{p}', HIST_SRC, {'d0': 'char'}, consts={'first': [acc], 'second': [acc[:p], '@d0', acc[p:]]}, preamble=pre,
                              what=f'{acc!r} accepted first, then the same text with any character inserted at position {p}', samples=5))
    # (C) a well-formed text with one free character (failing part-way, inside parentheses, in function arguments ...), then a free second string or a probe
    bases = c01.base_strings(rnd, 6 if tier == 'quick' else 30)
    for bi, text in enumerate(bases):
        for p in range(len(text)):
            S.append(Scenario(f'chars/hist-edit/{bi}@{p}', HIST_SRC, {'c0': 'char', 'd0': 'char'}, consts={'first': [text[:p], '@c0', text[p + 1:]], 'second': [rnd.choice(['', '2', '(', '1+']), '@d0', rnd.choice(['', '1', '(2)', '+1', ')'])]},
                              preamble=pre, what=f'{text!r} with any character at position {p}, then a string with one free character', samples=5))
    return S


def tasks(tier, seed):
    return ([{'id': f'c02-{i:02d}', 'tier': tier, 'seed': seed, 'slice': [i, NT]} for i in range(NT)]
            + [{'id': f'c02-ch-{i:02d}', 'tier': tier, 'seed': seed, 'chars': [i, NCH]} for i in range(NCH)])


def patches():
    return stubs.patched([('scinumtools.solver.atom', 'float', stubs.Float)])


def run_task(task):
    if 'chars' in task:
        from harness import c01
        S = hist_scenarios(task['tier'], task['seed'])
        S.sort(key=lambda sc: (not sc.key.startswith('chars/hist/'), sc.key))
        i, k = task['chars']
        return run_scenarios(S[i::k], c01.char_patches, timeout_ms=20000, seed=task['seed'], wall_s=3000, max_paths=400000)
    S = scenarios(task['tier'], task['seed'])
    i, k = task['slice']
    res = run_scenarios(S[i::k], patches, timeout_ms=20000, seed=task['seed'], wall_s=600)
    if i == 0:
        reads, writes = frame_check()
        allowed_w = {'tokens', 'expr'}
        allowed_r = {'tokens', 'expr', 'operators', 'steps'}
        if not writes <= allowed_w or not reads <= allowed_r:
            res['inconclusive'].append(f"frame check: solve() reads {sorted(reads)} and writes {sorted(writes)}; state beyond tokens/expr is not covered by the bounded histories")
        res['samples'].append({'frame_check': {'reads': sorted(reads), 'writes': sorted(writes)}})
    return res
