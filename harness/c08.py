"""C08 - measurement uncertainties propagate consistently and stay non-negative."""
from vf.scen import Scenario, run_scenarios
from harness import unitkit

PROPERTY = 'C08'
ENCODED = ['scinumtools.units.magnitude:Magnitude._add', 'scinumtools.units.magnitude:Magnitude._sub',
           'scinumtools.units.magnitude:Magnitude._mul', 'scinumtools.units.magnitude:Magnitude._truediv',
           'scinumtools.units.magnitude:Magnitude.__pow__', 'scinumtools.units.magnitude:Magnitude.__neg__',
           'scinumtools.units.magnitude:Magnitude._rel_to_abs', 'scinumtools.units.magnitude:Magnitude._abs_to_rel',
           'scinumtools.units.magnitude:Magnitude.__init__', 'scinumtools.units.unit_types:UnitType.convert',
           'scinumtools.units.quantity:Quantity.to', 'scinumtools.units.quantity:Quantity.__init__',
           'scinumtools.units.quantity:Quantity._mul', 'scinumtools.units.quantity:Quantity._truediv']
EXPLANATION = ("Values a,b of either sign and uncertainties ea,eb>=0 are solver variables (reals); the real Magnitude/Quantity "
               "operators run on proxies; np.abs/np.max fork or become If-terms; per path z3 proves the error formula claims.")
ASSUMPTIONS = unitkit.UNITS_STUB_TEXT + [
    "a division by a term that may be zero forks and the zero side raises in the library as it would on numbers; two scenario preconditions exclude divisor intervals that end at zero (b-eb = 0 or b+eb = 0: the quotient interval is unbounded, the library raises ZeroDivisionError, no claim)",
    "first-order bound for a/b is claimed for 0 < eb < b (relative uncertainty below 100 %)",
    "power: only non-negativity is claimed (the property states nothing else for powers); exponents are concrete",
    "array magnitudes are 2-element object arrays of proxies (class SymArr overrides astype(float)); np.max over such arrays forks on every comparison",
]
OUTSIDE = ['arrays longer than 2 elements / multi-dimensional arrays', 'Decimal magnitudes beyond conversion and +/- (real Decimal refuses mixed float arithmetic in the other operators)', 'binary64 rounding', 'non-linear (temperature, logarithmic, reciprocal) conversions of uncertainties']
BOUNDS = {'quick': {'exponents': '-3..3 and 1/2', 'unit pairs': '18 (including nm/pm, ns/ps, eV/keV, fg/pg, ym/zm, Gpc/Mpc, Ym/Zm)', 'zero': 'values may be zero: divisions fork instead of being assumed non-zero'}, 'thorough': {'exponents': '-6..6, 1/2, 3/2', 'unit pairs': 'every linear prefixed pair sample of 60'}}

PRE = "from scinumtools.units import Magnitude, Quantity\n"
R4 = {'a': 'real', 'ea': 'real', 'b': 'real', 'eb': 'real'}
E2 = ['v.ea >= 0', 'v.eb >= 0']


def scenarios(tier, seed):
    S = []
    S.append(Scenario('addsub/both', '''
        def run(v, O):
            A = Magnitude(v.a, v.ea); B = Magnitude(v.b, v.eb)
            out = []
            for name, r in (('a+b', A + B), ('a-b', A - B), ('b+a', B + A), ('b-a', B - A)):
                out.append((name + ':err=ea+eb', O.eq(r.error, v.ea + v.eb)))
                out.append((name + ':nonneg', O.ge(r.error, 0)))
            out.append(('a+b:value', O.eq((A + B).value, v.a + v.b)))
            out.append(('a-b:value', O.eq((A - B).value, v.a - v.b)))
            return out
        ''', R4, E2, preamble=PRE, what='sum/difference of two uncertain magnitudes'))
    S.append(Scenario('addsub/one-exact', '''
        def run(v, O):
            A = Magnitude(v.a, v.ea); B = Magnitude(v.b)
            out = []
            for name, r in (('a+B', A + B), ('a-B', A - B), ('B+a', B + A), ('B-a', B - A),
                            ('a+num', A + v.b), ('num+a', v.b + A), ('a-num', A - v.b), ('num-a', v.b - A)):
                out.append((name + ':err=ea', O.eq(r.error, v.ea)))
            return out
        ''', {'a': 'real', 'ea': 'real', 'b': 'real'}, ['v.ea >= 0'], preamble=PRE, what='sum/difference with an exact operand'))
    S.append(Scenario('exact', '''
        def run(v, O):
            A = Magnitude(v.a); B = Magnitude(v.b)
            out = []
            for name, r in (('+', A + B), ('-', A - B), ('*', A * B), ('/', A / B), ('neg', -A), ('**2', A ** 2),
                            ('*num', A * v.b), ('num*', v.b * A), ('/num', A / v.b), ('num/', v.b / A)):
                out.append((name + ':exact', O.is_none(r.error)))
            q = Quantity(v.a, 'km') * Quantity(v.b, 's')
            out.append(('quantity*:exact', O.is_none(q.abse())))
            out.append(('quantity.to:exact', O.is_none(Quantity(v.a, 'km').to('m').abse())))
            return out
        ''', {'a': 'real', 'b': 'real'}, ['v.a != 0', 'v.b != 0'], preamble=PRE, what='exact operands give an exact result'))
    S.append(Scenario('scale', '''
        def run(v, O):
            A = Magnitude(v.a, v.ea)
            out = []
            for name, r in (('a*k', A * v.k), ('k*a', v.k * A), ('a*K', A * Magnitude(v.k)), ('K*a', Magnitude(v.k) * A)):
                out.append((name + ':err=|k|ea', O.eq(r.error, O.abs(v.k) * v.ea)))
                out.append((name + ':nonneg', O.ge(r.error, 0)))
            for name, r in (('a/k', A / v.k), ('a/K', A / Magnitude(v.k))):
                out.append((name + ':err=ea/|k|', O.eq(r.error * O.abs(v.k), v.ea)))
                out.append((name + ':nonneg', O.ge(r.error, 0)))
            return out
        ''', {'a': 'real', 'ea': 'real', 'k': 'real'}, ['v.ea >= 0', 'v.k != 0'], preamble=PRE, what='multiplying/dividing by an exact number'))
    S.append(Scenario('scale/quantity', '''
        def run(v, O):
            q = Quantity(v.a, 'm', abse=v.ea)
            out = []
            for name, r in (('q*k', q * v.k), ('k*q', v.k * q), ('q*Q', q * Quantity(v.k, 's')), ('Q*q', Quantity(v.k, 's') * q)):
                out.append((name + ':err=|k|ea', O.eq(r.abse(), O.abs(v.k) * v.ea)))
            for name, r in (('q/k', q / v.k), ('q/Q', q / Quantity(v.k, 's'))):
                out.append((name + ':err=ea/|k|', O.eq(r.abse() * O.abs(v.k), v.ea)))
            out.append(('unit-factor', O.eq(Quantity(v.a, '-3*m', abse=v.ea).abse(), 3 * v.ea)))
            out.append(('neg', O.eq((-q).abse(), v.ea)))
            return out
        ''', {'a': 'real', 'ea': 'real', 'k': 'real'}, ['v.ea >= 0', 'v.k != 0'], preamble=PRE, what='quantity times/over an exact number'))
    S.append(Scenario('inverse-exact-over-uncertain', '''
        def run(v, O):
            A = Magnitude(v.a, v.ea)
            return [('k/a:nonneg', O.ge((v.k / A).error, 0)), ('K/a:nonneg', O.ge((Magnitude(v.k) / A).error, 0))]
        ''', {'a': 'real', 'ea': 'real', 'k': 'real'}, ['v.ea >= 0', 'v.a != 0', 'v.a - v.ea != 0', 'v.a + v.ea != 0'], preamble=PRE, what='exact number over an uncertain magnitude (the divisor interval does not end at zero)'))
    S.append(Scenario('mul/nonneg', '''
        def run(v, O):
            A = Magnitude(v.a, v.ea); B = Magnitude(v.b, v.eb)
            return [('a*b:nonneg', O.ge((A * B).error, 0)), ('b*a:nonneg', O.ge((B * A).error, 0))]
        ''', R4, E2, preamble=PRE, what='product of two uncertain magnitudes'))
    S.append(Scenario('mul/first-order', '''
        def run(v, O):
            A = Magnitude(v.a, v.ea); B = Magnitude(v.b, v.eb)
            r = A * B
            return [('a*b>=a.eb+b.ea', O.ge(r.error, v.a * v.eb + v.b * v.ea)), ('value', O.eq(r.value, v.a * v.b))]
        ''', R4, E2 + ['v.a > 0', 'v.b > 0'], preamble=PRE, what='product of two uncertain positive magnitudes'))
    S.append(Scenario('div/nonneg', '''
        def run(v, O):
            A = Magnitude(v.a, v.ea); B = Magnitude(v.b, v.eb)
            return [('a/b:nonneg', O.ge((A / B).error, 0))]
        ''', R4, E2 + ['v.b != 0', 'v.b - v.eb != 0', 'v.b + v.eb != 0'], preamble=PRE, what='quotient of two uncertain magnitudes (the divisor interval does not end at zero)'))
    S.append(Scenario('div/first-order', '''
        def run(v, O):
            A = Magnitude(v.a, v.ea); B = Magnitude(v.b, v.eb)
            r = A / B
            return [('a/b>=(a.eb+b.ea)/b2', O.ge(r.error * v.b * v.b, v.a * v.eb + v.b * v.ea)), ('value', O.eq(r.value * v.b, v.a))]
        ''', R4, E2 + ['v.a > 0', 'v.b > 0', 'v.eb < v.b'], preamble=PRE, what='quotient of two uncertain positive magnitudes'))
    exps = [-3, -2, -1, 0, 1, 2, 3, 0.5] if tier == 'quick' else [-6, -5, -4, -3, -2, -1, 0, 1, 2, 3, 4, 5, 6, 0.5, 1.5, -0.5]
    for p in exps:
        S.append(Scenario(f'pow/{p}', '''
            def run(v, O):
                out = [('pow:nonneg', O.ge((Magnitude(v.a, v.ea) ** v.p).error, 0))]
                out.append(('qpow:nonneg', O.ge((Quantity(v.a, 'm', abse=v.ea) ** v.p).abse(), 0)))
                return out
            ''', {'a': 'real', 'ea': 'real'}, ['v.ea >= 0', 'v.a != 0'] + (['v.a > 0'] if p != int(p) else []), consts={'p': p}, preamble=PRE,
            what=f'power {p} of an uncertain magnitude'))
    S.append(Scenario('neg', '''
        def run(v, O):
            r = -Magnitude(v.a, v.ea)
            return [('neg:err', O.eq(r.error, v.ea)), ('neg:value', O.eq(r.value, -v.a))]
        ''', {'a': 'real', 'ea': 'real'}, ['v.ea >= 0'], preamble=PRE, what='negation'))
    S.append(Scenario('rele-roundtrip', '''
        def run(v, O):
            m = Magnitude(v.a, v.ea)
            r = m.rele()
            m2 = Magnitude(v.a, rele=r)
            return [('abs->rel->abs', O.eq(m2.error, v.ea)), ('rele', O.eq(r * v.a, 100 * v.ea))]
        ''', {'a': 'real', 'ea': 'real'}, ['v.ea >= 0', 'v.a > 0'], preamble=PRE, what='relative/absolute conversion'))
    S.append(Scenario('rele-any-sign', '''
        def run(v, O):
            m = Magnitude(v.a, rele=v.r)
            q = Quantity(v.a, 'm', rele=v.r)
            out = [('relative input: absolute uncertainty is not negative', O.ge(m.error, 0)), ('relative input: abse = |a| r / 100', O.eq(m.error, O.abs(v.a) * v.r / 100)),
                   ('relative input read back', O.eq(m.rele(), v.r)), ('quantity with relative input: abse not negative', O.ge(q.abse(), 0)),
                   ('sum of two such magnitudes: not negative', O.ge((m + m).error, 0)), ('rele() of a negative value with an absolute uncertainty is not negative', O.ge(Magnitude(v.a, v.ea).rele(), 0)),
                   ('converted quantity: abse not negative', O.ge(Quantity(v.a, 'km', rele=v.r).to('m').abse(), 0))]
            return out
        ''', {'a': 'real', 'r': 'real', 'ea': 'real'}, ['v.r >= 0', 'v.ea >= 0', 'v.a != 0'], preamble=PRE, what='uncertainty given as a relative value on a value of either sign'))
    # linear conversions scale the uncertainty like the value
    pairs = [('km', 'm'), ('m', 'km'), ('g', 'kg'), ('h', 's'), ('km/h', 'm/s'), ('J', 'erg'), ('mm2', 'm2'), ('eV', 'J'), ('l', 'cm3'), ('N*m', 'J'),
             # both units far below 1 in base units (nm, ps, eV, fg) and far above (Gpc, Mt): nothing in the rescaling may depend on the absolute size of the factors
             ('nm', 'pm'), ('pm', 'nm'), ('ns', 'ps'), ('eV', 'keV'), ('fg', 'pg'), ('Gpc', 'Mpc'), ('ym', 'zm'), ('Ym', 'Zm')]
    if tier != 'quick':
        pairs += [('ft', 'm'), ('lb', 'kg'), ('Pa', 'bar'), ('kW*h', 'MJ'), ('deg', 'rad'), ('mi/h', 'km/s'), ('us', 'ms'), ('au', 'pc'), ('kg*m2/s2', 'J'), ('mol/l', 'mol/m3'),
                  ('%', 'ppth'), ('ly', 'km'), ('atm', 'kPa'), ('cal', 'J'), ('T', 'G'), ('Hz', 'kHz'), ('m-1', 'cm-1'), ('g/cm3', 'kg/m3'), ('C', 'mC'), ('day', 'yr')]
    for u, w in pairs:
        ratio = unitkit.ref_parse(u).value() / unitkit.ref_parse(w).value()
        S.append(Scenario(f'convert/{u}->{w}', '''
            def run(v, O):
                q = Quantity(v.a, v.u, abse=v.ea)
                r0 = q.rele()
                q.to(v.w)
                out = [('to:abse scales like the value', O.eq(q.abse(), v.ea * v.ratio, 1e-6)),
                       ('to:value', O.eq(q.value(), v.a * v.ratio, 1e-6)),
                       ('to:rele unchanged', O.eq(q.rele(), r0, 1e-6)),
                       ('to:nonneg', O.ge(q.abse(), 0))]
                return out
            ''', {'a': 'real', 'ea': 'real'}, ['v.ea >= 0', 'v.a > 0'], consts={'u': u, 'w': w, 'ratio': ratio}, preamble=PRE,
            what=f'linear conversion {u} -> {w} of an uncertain quantity'))
    for u, w in (('nm', 'pm'), ('ps', 'ns'), ('eV', 'meV'), ('km', 'm')):
        ratio = unitkit.ref_parse(w).value() / unitkit.ref_parse(u).value()
        S.append(Scenario(f'sum-small-units/{u}+{w}', '''
            def run(v, O):
                r = Quantity(v.a, v.u, abse=v.ea) + Quantity(v.b, v.w, abse=v.eb)
                return [('a+b: uncertainties add up (b converted into the unit of a)', O.eq(r.abse(), v.ea + v.eb * v.ratio, 1e-9)), ('a+b: value', O.eq(r.value(), v.a + v.b * v.ratio, 1e-9))]
            ''', {'a': 'real', 'ea': 'real', 'b': 'real', 'eb': 'real'}, ['v.ea >= 0', 'v.eb >= 0', 'v.a > 0', 'v.b > 0'], consts={'u': u, 'w': w, 'ratio': ratio}, preamble=PRE,
            what=f'sum of uncertain quantities in {u} and {w}'))
    # a bare number (or a ratio of lengths) converted to radians: linear although the dimensions differ
    for u, w, ratio in ((None, 'mrad', 1000.0), (None, 'rad', 1.0), ('cm/m', 'mrad', 10.0), ('mrad', 'rad', 0.001)):
        S.append(Scenario(f'convert-number/{u}->{w}', '''
            def run(v, O):
                q = Quantity(v.a, v.u, abse=v.ea) if v.u else Quantity(v.a, abse=v.ea)
                r0 = q.rele()
                w = q.value(v.w)
                q.to(v.w)
                return [('to:abse scales like the value', O.eq(q.abse(), v.ea * v.ratio, 1e-6)), ('to:value', O.eq(q.value(), v.a * v.ratio, 1e-6)),
                        ('value(unit)', O.eq(w, v.a * v.ratio, 1e-6)), ('to:rele unchanged', O.eq(q.rele(), r0, 1e-6))]
            ''', {'a': 'real', 'ea': 'real'}, ['v.ea >= 0', 'v.a > 0'], consts={'u': u, 'w': w, 'ratio': ratio}, preamble=PRE,
            what=f'conversion {u} -> {w} of an uncertain dimensionless quantity'))
    # products and quotients of uncertain quantities in different units (units that cancel are folded into the number: the uncertainty must follow)
    for u, w, op in (('m', 'cm', '/'), ('km', 'mm-1', '*'), ('m', 's', '/'), ('J', 'erg', '/'), ('km/h', 'm/s', '/'), ('kg', 'g-1', '*'), ('m', 'm', '/'), ('cm', 'm', '*')):
        fu, fw = unitkit.ref_parse(u).value(), unitkit.ref_parse(w).value()
        S.append(Scenario(f'quantity-muldiv/{u}{op}{w}', '''
            def run(v, O):
                A = Quantity(v.a, v.u, abse=v.ea); B = Quantity(v.b, v.w, abse=v.eb)
                r = (A / B) if v.op == '/' else (A * B)
                f = ref_units(r.units())[0] if r.units() else 1.0          # base-unit factor of whatever units the result carries (reference tables)
                val, err = r.value() * f, r.abse() * f
                if v.op == '/':
                    k = v.fu / v.fw
                    return [('a/b value', O.eq(val * v.b, k * v.a, 1e-6)), ('a/b first-order bound', O.ge(err * v.b * v.b, k * (v.a * v.eb + v.b * v.ea))), ('a/b:nonneg', O.ge(r.abse(), 0))]
                k = v.fu * v.fw
                return [('a*b value', O.eq(val, k * v.a * v.b, 1e-6)), ('a*b first-order bound', O.ge(err, k * (v.a * v.eb + v.b * v.ea))), ('a*b:nonneg', O.ge(r.abse(), 0))]
            ''', R4, E2 + ['v.a > 0', 'v.b > 0', 'v.eb < v.b'], consts={'u': u, 'w': w, 'op': op, 'fu': fu, 'fw': fw}, preamble=PRE + unitkit.REF_SRC,
            what=f'{u} {op} {w} of two uncertain positive quantities'))
    for u, w in pairs[:6]:
        ratio = unitkit.ref_parse(u).value() / unitkit.ref_parse(w).value()
        S.append(Scenario(f'convert-decimal/{u}->{w}', '''
            def run(v, O):
                q = Quantity(O.dec(v.a), v.u, abse=v.ea)
                q.to(v.w)
                return [('to:abse scales like the value', O.eq(q.abse(), v.ea * v.ratio, 1e-6)),
                        ('to:value', O.eq(q.value(), v.a * v.ratio, 1e-6))]
            ''', {'a': 'real', 'ea': 'real'}, ['v.ea >= 0', 'v.a > 0'], consts={'u': u, 'w': w, 'ratio': ratio}, preamble=PRE,
            what=f'linear conversion {u} -> {w} of an uncertain Decimal quantity'))
    S.append(Scenario('addsub/decimal', '''
        def run(v, O):
            A = Magnitude(O.dec(v.a), v.ea); B = Magnitude(O.dec(v.b), v.eb)
            out = []
            for name, r in (('a+b', A + B), ('a-b', A - B), ('b-a', B - A)):
                out.append((name + ':err=ea+eb', O.eq(r.error, v.ea + v.eb)))
            out.append(('a-b:value', O.eq((A - B).value, v.a - v.b)))
            out.append(('neg', O.eq((-A).error, v.ea)))
            return out
        ''', R4, E2, preamble=PRE, what='sum/difference of two uncertain Decimal magnitudes'))
    A6 = {'a0': 'real', 'a1': 'real', 'ea': 'real', 'b0': 'real', 'b1': 'real', 'eb': 'real'}
    S.append(Scenario('array/addsub', '''
        def run(v, O):
            A = Magnitude(O.arr([v.a0, v.a1]), v.ea); B = Magnitude(O.arr([v.b0, v.b1]), v.eb)
            out = []
            for name, r in (('a+b', A + B), ('a-b', A - B), ('b-a', B - A)):
                for i in (0, 1):
                    out.append((f'{name}[{i}]:err=ea+eb', O.eq(r.error[i], v.ea + v.eb)))
            C = Magnitude(O.arr([v.b0, v.b1]))
            for name, r in (('a+exact', A + C), ('exact-a', C - A), ('a+num', A + v.b0), ('num-a', v.b0 - A)):
                for i in (0, 1):
                    out.append((f'{name}[{i}]:err=ea', O.eq(r.error[i], v.ea)))
            out.append(('exact array ops stay exact', O.is_none((C * C + C / 2 - C).error)))
            return out
        ''', A6, E2, preamble=PRE, what='sum/difference of uncertain array magnitudes'))
    S.append(Scenario('array/quantity-sums', '''
        def run(v, O):
            a = Quantity(O.arr([v.a0, v.a1]), 'cm', abse=v.ea); b = Quantity(O.arr([v.b0, v.b1]), 'm', abse=v.eb)
            s3 = b + a + a
            d3 = b - a - a
            out = []
            for i in (0, 1):
                out.append((f'b+a+a[{i}]: uncertainties add up (a converted into metres)', O.eq(s3.abse()[i], v.eb + 2 * v.ea / 100, 1e-9)))
                out.append((f'b-a-a[{i}]: uncertainties add up', O.eq(d3.abse()[i], v.eb + 2 * v.ea / 100, 1e-9)))
                out.append((f'a[{i}] keeps its own uncertainty', O.eq(a.abse()[i], v.ea, 1e-9)))
            s4 = a + b + a + b
            out.append(('a+b+a+b[0]: uncertainties add up (b converted into centimetres)', O.eq(s4.abse()[0], 2 * v.ea + 200 * v.eb, 1e-9)))
            return out
        ''', A6, E2, preamble=PRE, what='sums of three and four uncertain array quantities in different units'))
    S.append(Scenario('array/scale', '''
        def run(v, O):
            A = Magnitude(O.arr([v.a0, v.a1]), v.ea)
            K = Magnitude(O.arr([v.b0, v.b1]))
            out = []
            for name, r, ks in (('a*k', A * v.b0, (v.b0, v.b0)), ('k*a', v.b0 * A, (v.b0, v.b0)), ('a*K', A * K, (v.b0, v.b1)), ('K*a', K * A, (v.b0, v.b1))):
                for i in (0, 1):
                    out.append((f'{name}[{i}]:err=|k|ea', O.eq(r.error[i], O.abs(ks[i]) * v.ea)))
            for name, r, ks in (('a/k', A / v.b0, (v.b0, v.b0)), ('a/K', A / K, (v.b0, v.b1))):
                for i in (0, 1):
                    out.append((f'{name}[{i}]:err=ea/|k|', O.eq(r.error[i] * O.abs(ks[i]), v.ea)))
            n = -A
            out.append(('neg[0]', O.eq(n.error[0], v.ea)))
            p = A ** -1
            out.append(('pow-1[0]:nonneg', O.ge(p.error[0], 0)))
            out.append(('pow-1[1]:nonneg', O.ge(p.error[1], 0)))
            return out
        ''', {'a0': 'real', 'a1': 'real', 'ea': 'real', 'b0': 'real', 'b1': 'real'}, ['v.ea >= 0', 'v.b0 != 0', 'v.b1 != 0', 'v.a0 != 0', 'v.a1 != 0'], preamble=PRE,
        what='array magnitude times/over exact numbers'))
    S.append(Scenario('array/mul', '''
        def run(v, O):
            A = Magnitude(O.arr([v.a0, v.a1]), v.ea); B = Magnitude(O.arr([v.b0, v.b1]), v.eb)
            r = A * B
            a, b = (v.a0, v.a1), (v.b0, v.b1)
            out = []
            for i in (0, 1):
                out.append((f'a*b[{i}]:nonneg', O.ge(r.error[i], 0)))
                out.append((f'a*b[{i}]:first order', O.ge(r.error[i], a[i] * v.eb + b[i] * v.ea)))
            return out
        ''', A6, E2 + ['v.a0 > 0', 'v.a1 > 0', 'v.b0 > 0', 'v.b1 > 0'], preamble=PRE, what='product of uncertain positive arrays'))
    S.append(Scenario('array/div', '''
        def run(v, O):
            A = Magnitude(O.arr([v.a0, v.a1]), v.ea); B = Magnitude(O.arr([v.b0, v.b1]), v.eb)
            r = A / B
            a, b = (v.a0, v.a1), (v.b0, v.b1)
            out = []
            for i in (0, 1):
                out.append((f'a/b[{i}]:first order', O.ge(r.error[i] * b[i] * b[i], a[i] * v.eb + b[i] * v.ea)))
            return out
        ''', A6, E2 + ['v.a0 > 0', 'v.a1 > 0', 'v.b0 > 0', 'v.b1 > 0', 'v.eb < v.b0', 'v.eb < v.b1'], preamble=PRE, what='quotient of uncertain positive arrays'))
    for u, w in pairs[:4]:
        ratio = unitkit.ref_parse(u).value() / unitkit.ref_parse(w).value()
        S.append(Scenario(f'array/convert/{u}->{w}', '''
            def run(v, O):
                q = Quantity(O.arr([v.a0, v.a1]), v.u, abse=v.ea)
                q.to(v.w)
                out = []
                for i, a in enumerate((v.a0, v.a1)):
                    out.append((f'to[{i}]:abse scales like the value', O.eq(q.abse()[i], v.ea * v.ratio, 1e-6)))
                    out.append((f'to[{i}]:value', O.eq(q.value()[i], a * v.ratio, 1e-6)))
                return out
            ''', {'a0': 'real', 'a1': 'real', 'ea': 'real'}, ['v.ea >= 0'], consts={'u': u, 'w': w, 'ratio': ratio}, preamble=PRE,
            what=f'linear conversion {u} -> {w} of an uncertain array quantity'))
    # canaries: deliberately wrong oracles must be refuted
    S.append(Scenario('canary/addsub', '''
        def run(v, O):
            return [('wrong', O.eq((Magnitude(v.a, v.ea) + Magnitude(v.b, v.eb)).error, v.ea))]
        ''', R4, E2, preamble=PRE, canary=True))
    S.append(Scenario('canary/mul', '''
        def run(v, O):
            return [('wrong', O.ge((Magnitude(v.a, v.ea) * Magnitude(v.b, v.eb)).error, 2 * (v.a * v.eb + v.b * v.ea) + 1))]
        ''', R4, E2 + ['v.a > 0', 'v.b > 0'], preamble=PRE, canary=True))
    return S


def tasks(tier, seed):
    n = len(scenarios(tier, seed))
    k = 8
    return [{'id': f'c08-{i}', 'tier': tier, 'seed': seed, 'slice': [i, k]} for i in range(k)]


def run_task(task):
    S = scenarios(task['tier'], task['seed'])
    i, k = task['slice']
    return run_scenarios(S[i::k], unitkit.units_patches, timeout_ms=20000, seed=task['seed'], div_zero='fork')
