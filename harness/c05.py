"""C05 - temperature and logarithmic conversions follow their formulas and invert."""
from fractions import Fraction

from vf.scen import Scenario, run_scenarios
from harness import unitkit

PROPERTY = 'C05'
ENCODED = ['scinumtools.units.unit_types:TemperatureUnitType', 'scinumtools.units.unit_types:LogarithmicUnitType._istype',
           'scinumtools.units.unit_types:LogarithmicUnitType._convert_Ratio_B', 'scinumtools.units.unit_types:LogarithmicUnitType._convert_B_Ratio',
           'scinumtools.units.unit_types:LogarithmicUnitType._convert_Ratio_Np', 'scinumtools.units.unit_types:LogarithmicUnitType._convert_Np_Ratio',
           'scinumtools.units.unit_types:LogarithmicUnitType._convert_B_B', 'scinumtools.units.unit_types:LogarithmicUnitType.add',
           'scinumtools.units.unit_types:LogarithmicUnitType.sub', 'scinumtools.units.unit_types:UnitType.convert',
           'scinumtools.units.quantity:Quantity._convert', 'scinumtools.units.quantity:Quantity._add', 'scinumtools.units.quantity:Quantity._sub']
EXPLANATION = ("The magnitude is a solver variable; log10/ln/exp/10**x are uninterpreted functions with ground inverse axioms, so the claim "
               "'conversion term = hand-written standard definition' is decided by congruence + linear arithmetic on the arguments, and "
               "'conversion then reverse = identity' by the instantiated inverse axioms; temperature formulas are affine and decided exactly up to 1e-9.")
ASSUMPTIONS = unitkit.UNITS_STUB_TEXT + [
    "a division by a term that may be zero forks; on the zero side the library's own ZeroDivisionError propagates and is reported (no denominator is assumed away)",
    "log10, ln, exp, pow are uninterpreted; only inverse/positivity ground axioms are used (true values of the functions are outside the claim)",
    "linear -> logarithmic conversions assume x > 0; level subtraction assumes a > b",
    "temperatures are claimed at or above absolute zero (the property's 'physically meaningful range')",
    "the direct B<->Np constant (1.151277918) is not compared with ln(10)/2: C05 does not state it",
]
OUTSIDE = ['array magnitudes beyond two elements (temperature conversions and level additions are checked on 2-element arrays)', 'binary64 rounding', 'the B<->Np constant', 'temperatures inside compound units (refused by the library)']
BOUNDS = {'quick': 'all 16 temperature pairs + prefixed kelvin, every row of LogarithmicUnitType.conversions with its admissible prefixes, add/sub for every bel-type unit, mixed-prefix levels, two-element array temperatures and level sums, concrete edge inputs (zeros and ratios of 1e-30 in arrays, array level subtraction, Decimal Cel/degF)',
          'thorough': 'same plus more linear-side prefixes and compound forms'}
EXHAUSTIVE = {'quick': True, 'thorough': True}
PRE = '''
from scinumtools.units import Quantity
def toK(u, x):
    if u == 'Cel': return x + 273.15
    if u == 'degF': return (x - 32) * 5 / 9 + 273.15
    if u == 'degR': return x * 5 / 9
    scale = {'K': 1, 'mK': 1e-3, 'kK': 1e3, 'MK': 1e6, 'uK': 1e-6}[u]
    return x * scale
def fromK(w, k):
    if w == 'Cel': return k - 273.15
    if w == 'degF': return (k - 273.15) * 9 / 5 + 32
    if w == 'degR': return k * 9 / 5
    scale = {'K': 1, 'mK': 1e-3, 'kK': 1e3, 'MK': 1e6, 'uK': 1e-6}[w]
    return k / scale
'''
TEMP_SRC = '''
def run(v, O):
    q = Quantity(v.x, v.u)
    want = fromK(v.w, toK(v.u, v.x))
    out = [('value', O.eq(q.value(v.w), want, 1e-9))]
    out.append(('to', O.eq(Quantity(v.x, v.u).to(v.w).value(), want, 1e-9)))
    out.append(('round trip', O.eq(Quantity(v.x, v.u).to(v.w).to(v.u).value(), v.x, 1e-9)))
    out.append(('identity', O.eq(Quantity(v.x, v.u).value(v.u), v.x, 1e-9)))
    out.append(('identity to', O.eq(Quantity(v.x, v.u).to(v.u).value(), v.x, 1e-9)))
    return out
'''
# k*log10 / k*ln definitions; v.kind in {'log10','ln'}; v.k factor; v.ref reference level in unit u; v.scale prefix scale of the log unit
LOG_SRC = '''
def run(v, O):
    lg = O.log10 if v.kind == 'log10' else O.ln
    ex = (lambda t: O.pow(10, t)) if v.kind == 'log10' else O.exp
    out = []
    out.append(('linear->log follows the definition', O.eq(Quantity(v.x, v.u).value(v.w), v.scale * v.k * lg(v.x / v.ref))))
    out.append(('log->linear follows the definition', O.eq(Quantity(v.y, v.w).value(v.u), v.ref * ex(v.y / (v.scale * v.k)))))
    out.append(('linear->log->linear', O.eq(Quantity(v.x, v.u).to(v.w).to(v.u).value(), v.x)))
    out.append(('log->linear->log', O.eq(Quantity(v.y, v.w).to(v.u).to(v.w).value(), v.y)))
    out.append(('log identity', O.eq(Quantity(v.y, v.w).value(v.w), v.y)))
    out.append(('log identity to', O.eq(Quantity(v.y, v.w).to(v.w).value(), v.y)))
    return out
'''
LOGLOG_SRC = '''
def run(v, O):
    out = [('log->log offset', O.eq(Quantity(v.y, v.w1).value(v.w2), (v.y / v.s1 + v.off) * v.s2))]
    out.append(('log->log->log', O.eq(Quantity(v.y, v.w1).to(v.w2).to(v.w1).value(), v.y)))
    return out
'''
ADD_SRC = '''
def run(v, O):
    p = lambda t: O.pow(10, t / v.scale)
    s = Quantity(v.a, v.w) + Quantity(v.b, v.w)
    out = [('a+b power sum', O.eq(s.value(), v.scale * O.log10(p(v.a) + p(v.b)))), ('a+b units', O.same(s.units(), v.w))]
    return out
'''
SUB_SRC = '''
def run(v, O):
    p = lambda t: O.pow(10, t / v.scale)
    d = Quantity(v.a, v.w) - Quantity(v.b, v.w)
    out = [('a-b power difference', O.eq(d.value(), v.scale * O.log10(p(v.a) - p(v.b)))), ('a-b units', O.same(d.units(), v.w))]
    return out
'''
ARR_SRC = '''
def run(v, O):
    # array magnitudes: the formulas hold element-wise and reading a value twice gives the same numbers
    out = []
    xs = (v.x0, v.x1)
    T = Quantity(O.arr([v.x0, v.x1]), v.u)
    r1 = T.value(v.w)
    r2 = T.value(v.w)
    back = Quantity(O.arr([v.x0, v.x1]), v.u).to(v.w).to(v.u).value()
    for i in (0, 1):
        want = fromK(v.w, toK(v.u, xs[i]))
        out.append((f'[{i}] value', O.eq(r1[i], want, 1e-9)))
        out.append((f'[{i}] second reading equals the first', O.eq(r2[i], want, 1e-9)))
        out.append((f'[{i}] source unchanged', O.eq(T.value()[i], xs[i], 1e-9)))
        out.append((f'[{i}] identity', O.eq(T.value(v.u)[i], xs[i], 1e-9)))
        out.append((f'[{i}] round trip', O.eq(back[i], xs[i], 1e-9)))
    return out
'''
EDGE_SRC = '''
import numpy as np, math
def run(v, O):
    # concrete edge inputs: arrays that contain a zero or a tiny ratio (the other elements keep their formula values), Decimal temperatures
    from decimal import Decimal
    out = []
    with np.errstate(all='ignore'):
        for u, w, xs, ref, scale in v.arrays:
            r = Quantity(np.array(xs, dtype=float), u).to(w).value()
            out.append((f'{xs} {u} -> {w}: one level per element', O.same(getattr(r, 'shape', None), (len(xs),))))
            if getattr(r, 'shape', None) != (len(xs),):
                continue
            for i, x in enumerate(xs):
                if x > 0:
                    out.append((f'{xs} {u} -> {w}: element {i}', O.same(math.isfinite(float(r[i])), True) and O.eq(float(r[i]), scale * math.log10(x / ref), 1e-9)))
                else:
                    out.append((f'{xs} {u} -> {w}: element {i} (no signal) is minus infinity', O.same(float(r[i]) == float('-inf'), True)))
            back = Quantity(r, w).to(u).value()
            for i, x in enumerate(xs):
                out.append((f'{xs} {u} -> {w} -> {u}: element {i}', O.same(math.isfinite(float(back[i])), True) and O.eq(float(back[i]) / x if x > 0 else float(back[i]), 1.0 if x > 0 else 0.0, 1e-9)))
    for w, a, b, scale in v.subtractions:
        try:
            d = Quantity(np.array(a, dtype=float), w) - Quantity(np.array(b, dtype=float) if isinstance(b, list) else b, w)
            vals = np.asarray(d.value(), dtype=float)
        except Exception as e:
            out.append((f'{a} {w} - {b} {w}: element-wise power difference', O.same(type(e).__name__, None)))
            continue
        out.append((f'{a} {w} - {b} {w}: one level per element', O.same(vals.shape, (len(a),))))
        for i in range(len(a)):
            bi = b[i] if isinstance(b, list) else b
            out.append((f'{a} {w} - {b} {w}: element {i}', O.eq(float(vals[i]), scale * math.log10(10 ** (a[i] / scale) - 10 ** (bi / scale)), 1e-9)))
    for u, w, text in v.decimals:
        x = Decimal(text)
        want = x * 9 / 5 + 32 if (u, w) == ('Cel', 'degF') else (x - 32) * 5 / 9
        try:
            r = Quantity(x, u).to(w).value()
        except Exception as e:
            out.append((f'Decimal {text} {u} -> {w}: converted', O.same(type(e).__name__, None)))
            continue
        out.append((f'Decimal {text} {u} -> {w}: value', O.eq(float(r), float(want), 1e-12)))
        out.append((f'Decimal {text} {u} -> {w}: stays a Decimal', O.same(type(r).__name__, 'Decimal')))
        out.append((f'Decimal {text} {u} -> {w} -> {u}: round trip', O.eq(float(Quantity(x, u).to(w).to(u).value()), float(x), 1e-12)))
    return out
'''
EDGE_ARRAYS = [('mW', 'dBm', [0.0, 1.0, 100.0], 1.0, 10.0), ('W', 'dBm', [1e-30, 1.0, 100.0], 1e-3, 10.0), ('W', 'dBW', [1e-20, 0.0], 1.0, 10.0), ('PR', 'dB', [0.0, 1.0, 1e-25], 1.0, 10.0),
               ('V', 'dBV', [0.0, 1.0, 10.0], 1.0, 20.0), ('V', 'dBV', [1e-20, 2.0], 1.0, 20.0), ('mW', 'dBm', [3.0], 1.0, 10.0)]
EDGE_SUBTRACTIONS = [('dBA', [87., 90.], [83., 80.], 10.0), ('dBm', [20., 30., 40.], [10., 10., 39.], 10.0), ('B', [[2., 3.], [4., 5.]][0], [1., 1.], 1.0), ('dBA', [87., 90.], 80., 10.0), ('dB', [3.], [1.], 10.0)]
EDGE_DECIMALS = [('Cel', 'degF', '20'), ('Cel', 'degF', '-40'), ('Cel', 'degF', '36.6'), ('degF', 'Cel', '68'), ('degF', 'Cel', '-40'), ('degF', 'Cel', '98.6'), ('Cel', 'degF', '0')]
ARRADD_SRC = '''
def run(v, O):
    p = lambda t: O.pow(10, t / v.scale)
    A = Quantity(O.arr([v.a0, v.a1]), v.w); B = Quantity(O.arr([v.b0, v.b1]), v.w)
    try:
        s = A + B
        n = len(s.value())
    except Exception:
        n = -1
    if n != 2:
        return [('a+b gives one level per element', False)]
    out = []
    for i, (a, b) in enumerate(((v.a0, v.b0), (v.a1, v.b1))):
        out.append((f'[{i}] a+b power sum, element-wise', O.eq(s.value()[i], v.scale * O.log10(p(a) + p(b)))))
    out.append(('a+b units', O.same(s.units(), v.w)))
    return out
'''
MIX_SRC = '''
def run(v, O):
    # two levels of the same bel-type unit written with different prefixes: the right operand is taken over into the left one's prefix
    pa = O.pow(10, v.a / v.s1)
    pb = O.pow(10, v.b / v.s2)
    s = Quantity(v.a, v.w1) + Quantity(v.b, v.w2)
    out = [('a+b power sum (mixed prefixes)', O.eq(s.value(), v.s1 * O.log10(pa + pb))), ('a+b units', O.same(s.units(), v.w1))]
    if v.sub:
        d = Quantity(v.a, v.w1) - Quantity(v.b, v.w2)
        out += [('a-b power difference (mixed prefixes)', O.eq(d.value(), v.s1 * O.log10(pa - pb))), ('a-b units', O.same(d.units(), v.w1))]
    return out
'''
RT_SRC = '''
def run(v, O):
    out = [('there and back returns the original level', O.eq(Quantity(v.y, v.w1).to(v.w2).to(v.w1).value(), v.y, 1e-9)),
           ('value() there and back', O.eq(Quantity(Quantity(v.y, v.w1).value(v.w2), v.w2).value(v.w1), v.y, 1e-9))]
    return out
'''
# (linear unit, factor k, reference level in that unit) per logarithmic base unit  -- from the documented definitions
DEFS = {
    'Bm': [('W', 1, 1e-3)], 'BmW': [('W', 1, 1e-3)], 'BW': [('W', 1, 1.0)], 'BV': [('V', 2, 1.0)], 'BuV': [('V', 2, 1e-6)],
    'BA': [('A', 2, 1.0)], 'BuA': [('A', 2, 1e-6)], 'BOhm': [('Ohm', 2, 1.0)], 'BSPL': [('Pa', 2, 2e-5)],
    'BSIL': [('W/m2', 1, 1e-12)], 'BSWL': [('W', 1, 1e-12)], 'B': [('PR', 1, 1.0), ('AR', 2, 1.0)],
}
NP_DEFS = [('PR', 0.5, 1.0), ('AR', 1, 1.0)]
LIN_PREFIX = {'W': [('', 1.0), ('m', 1e-3), ('k', 1e3)], 'V': [('', 1.0), ('u', 1e-6), ('k', 1e3)], 'A': [('', 1.0), ('m', 1e-3)],
              'Ohm': [('', 1.0), ('k', 1e3)], 'Pa': [('', 1.0), ('h', 1e2)], 'W/m2': [('', 1.0)], 'PR': [('', 1.0)], 'AR': [('', 1.0)]}
OFFSETS = {('BW', 'Bm'): 3, ('Bm', 'BW'): -3, ('BW', 'BmW'): 3, ('BmW', 'BW'): -3, ('Bm', 'BmW'): 0, ('BmW', 'Bm'): 0, ('BV', 'BuV'): 12, ('BuV', 'BV'): -12}


def covered_rows():
    rows = set()
    for w, lst in DEFS.items():
        for u, k, ref in lst:
            rows.add(f"{u.split('/')[0]}_{w}")
            rows.add(f"{w}_{u.split('/')[0]}")
    for u, k, ref in NP_DEFS:
        rows.add(f"{u}_Np")
        rows.add(f"Np_{u}")
    for (a, b) in OFFSETS:
        rows.add(f"{a}_{b}")
    for w in DEFS:
        rows.add(f"{w}_{w}")
    return rows


def scenarios(tier, seed):
    S = []
    temps = ['K', 'Cel', 'degF', 'degR']
    for u in temps + ['mK', 'kK', 'MK']:
        for w in temps + (['mK', 'kK'] if u in temps else []):
            zero = {'Cel': -273.15, 'degF': -459.67}.get(u, 0)
            S.append(Scenario(f'temp/{u}->{w}', TEMP_SRC, {'x': 'real'}, [f'v.x >= {zero}'], consts={'u': u, 'w': w}, preamble=PRE,
                              what=f'temperature conversion {u} -> {w}', samples=2))
    R2 = {'x': 'real', 'y': 'real'}
    for w, lst in DEFS.items():
        for u, k, ref in lst:
            for lp, lscale in (LIN_PREFIX[u] if tier != 'quick' else LIN_PREFIX[u][:2]):
                for wp, wscale in (('', 1.0), ('d', 10.0)):
                    uu = lp + u
                    S.append(Scenario(f'log/{uu}<->{wp}{w}', LOG_SRC, R2, ['v.x > 0'],
                                      consts={'u': uu, 'w': wp + w, 'k': k, 'ref': float(Fraction(repr(ref)) / Fraction(repr(lscale))), 'scale': wscale, 'kind': 'log10'}, preamble=PRE,
                                      what=f'logarithmic conversion {uu} <-> {wp}{w} (k={k}, reference {ref} {u})', samples=2))
    for u, k, ref in NP_DEFS:
        for wp, wscale in (('', 1.0), ('d', 10.0), ('c', 100.0)):
            S.append(Scenario(f'log/{u}<->{wp}Np', LOG_SRC, R2, ['v.x > 0'],
                              consts={'u': u, 'w': wp + 'Np', 'k': k, 'ref': ref, 'scale': wscale, 'kind': 'ln'}, preamble=PRE,
                              what=f'neper conversion {u} <-> {wp}Np', samples=2))
    S.append(Scenario('log/W/Hz<->dBmW/Hz', LOG_SRC, R2, ['v.x > 0'],
                      consts={'u': 'W/Hz', 'w': 'dBmW/Hz', 'k': 1, 'ref': 1e-3, 'scale': 10.0, 'kind': 'log10'}, preamble=PRE,
                      what='fraction form dBmW/Hz <-> W/Hz', samples=2))
    for (a, b), off in OFFSETS.items():
        for p1, s1 in (('', 1.0), ('d', 10.0)):
            for p2, s2 in (('', 1.0), ('d', 10.0)):
                S.append(Scenario(f'loglog/{p1}{a}->{p2}{b}', LOGLOG_SRC, {'y': 'real'},
                                  consts={'w1': p1 + a, 'w2': p2 + b, 's1': s1, 's2': s2, 'off': off}, preamble=PRE,
                                  what=f'level conversion {p1}{a} -> {p2}{b}', samples=2))
    for w in list(DEFS):
        for wp, wscale in (('', 1.0), ('d', 10.0)):
            S.append(Scenario(f'add/{wp}{w}', ADD_SRC, {'a': 'real', 'b': 'real'}, consts={'w': wp + w, 'scale': wscale}, preamble=PRE,
                              what=f'level addition in {wp}{w}', samples=2))
            S.append(Scenario(f'sub/{wp}{w}', SUB_SRC, {'a': 'real', 'b': 'real'}, ['v.a > v.b'], consts={'w': wp + w, 'scale': wscale}, preamble=PRE,
                              what=f'level subtraction in {wp}{w}', samples=2))
    for w in list(DEFS):
        for (p1, s1), (p2, s2) in ((('d', 10.0), ('', 1.0)), (('', 1.0), ('d', 10.0))):
            # a/s1 > b/s2 keeps the difference of powers positive
            S.append(Scenario(f'mixed/{p1}{w}|{p2}{w}', MIX_SRC, {'a': 'real', 'b': 'real'}, [f'v.a * {s2} > v.b * {s1}'],
                              consts={'w1': p1 + w, 'w2': p2 + w, 's1': s1, 's2': s2, 'sub': True}, preamble=PRE,
                              what=f'level addition/subtraction {p1}{w} with {p2}{w}', samples=2))
    for u, w in (('Cel', 'degF'), ('degF', 'Cel'), ('K', 'degF'), ('degF', 'K'), ('Cel', 'K'), ('K', 'Cel'), ('degR', 'Cel'), ('mK', 'degF')):
        zero = {'Cel': -273.15, 'degF': -459.67}.get(u, 0)
        S.append(Scenario(f'temp-array/{u}->{w}', ARR_SRC, {'x0': 'real', 'x1': 'real'}, [f'v.x0 >= {zero}', f'v.x1 >= {zero}'], consts={'u': u, 'w': w}, preamble=PRE,
                          what=f'array temperature conversion {u} -> {w}', samples=2))
    for w, wscale in (('dB', 10.0), ('B', 1.0), ('dBm', 10.0), ('dBV', 10.0)):
        S.append(Scenario(f'add-array/{w}', ARRADD_SRC, {'a0': 'real', 'a1': 'real', 'b0': 'real', 'b1': 'real'}, consts={'w': w, 'scale': wscale}, preamble=PRE,
                          what=f'element-wise level addition of arrays in {w}', samples=2))
    for w1, w2 in (('B', 'Np'), ('Np', 'B'), ('dB', 'Np'), ('dB', 'cNp'), ('cNp', 'dB'), ('dNp', 'B'), ('B', 'dNp')):
        S.append(Scenario(f'roundtrip/{w1}<->{w2}', RT_SRC, {'y': 'real'}, consts={'w1': w1, 'w2': w2}, preamble=PRE, what=f'level conversion {w1} -> {w2} -> {w1}', samples=2))
    S.append(Scenario('edge-inputs', EDGE_SRC, {}, consts={'arrays': EDGE_ARRAYS, 'decimals': EDGE_DECIMALS, 'subtractions': EDGE_SUBTRACTIONS}, preamble=PRE, what='arrays containing a zero or a tiny ratio converted to levels; Decimal temperatures (concrete)', samples=1))
    S.append(Scenario('canary/temp', TEMP_SRC, {'x': 'real'}, ['v.x >= 0'], consts={'u': 'Cel', 'w': 'degR'}, preamble=PRE.replace('273.15', '273.25'), canary=True))
    S.append(Scenario('canary/log', LOG_SRC, R2, ['v.x > 0'], consts={'u': 'W', 'w': 'dBm', 'k': 2, 'ref': 1e-3, 'scale': 10.0, 'kind': 'log10'}, preamble=PRE, canary=True))
    S.append(Scenario('canary/add', ADD_SRC, {'a': 'real', 'b': 'real'}, consts={'w': 'dBm', 'scale': 20.0}, preamble=PRE, canary=True))
    return S


NT = 16


def tasks(tier, seed):
    return [{'id': f'c05-{i:02d}', 'tier': tier, 'seed': seed, 'slice': [i, NT]} for i in range(NT)]


def run_task(task):
    S = scenarios(task['tier'], task['seed'])
    i, k = task['slice']
    mine = S[i::k]
    res = run_scenarios([s for s in mine if s.key != 'edge-inputs'], unitkit.units_patches, timeout_ms=20000, seed=task['seed'], div_zero='fork')
    import contextlib
    res2 = run_scenarios([s for s in mine if s.key == 'edge-inputs'], contextlib.nullcontext, timeout_ms=20000, seed=task['seed'])      # concrete inputs on the unpatched library
    for key, val in res2.items():
        if key == 'stats':
            for kk, vv in val.items():
                res['stats'][kk] = res['stats'].get(kk, 0) + vv
        elif isinstance(val, list):
            res[key] = res.get(key, []) + val
        else:
            res[key] = res.get(key, 0) + val
    if i == 0:
        # fail closed when the library's conversion table has rows the oracle table does not know
        from scinumtools.units.unit_types import LogarithmicUnitType
        unknown = sorted(set(LogarithmicUnitType.conversions) - covered_rows())
        if unknown:
            res['inconclusive'].append(f"conversion rows without an oracle entry: {unknown}")
    return res
