"""C20 - table, row and grid helpers behave like their simple models."""
import ast
import inspect
import itertools
import random
import time

import z3

from symx import core, stubs
from symx.core import Engine, SymInt, SymReal
from vf.scen import Scenario, run_scenarios

PROPERTY = 'C20'
ENCODED = ['scinumtools.parameter_table:ParameterTable.append', 'scinumtools.parameter_table:ParameterTable.__delitem__', 'scinumtools.parameter_table:ParameterTable.__getitem__',
           'scinumtools.parameter_table:ParameterTable.__getattr__', 'scinumtools.parameter_table:ParameterTable.__setitem__', 'scinumtools.parameter_table:ParameterTable.items',
           'scinumtools.row_collector:RowCollector.append', 'scinumtools.row_collector:RowCollector.sort', 'scinumtools.data_plot_grid:DataPlotGrid.__init__',
           'scinumtools.data_plot_grid:DataPlotGrid.items', 'scinumtools.data_combination:DataCombination']
EXPLANATION = ("ParameterTable: one inductive step - from every valid table state over a 3-key pool (all ordered subsets) one operation (append/overwrite, setitem, delete, reads) with "
               "symbolic record values is run on the real class and on an OrderedDict model and every public observation is compared (z3 on the value terms). "
               "RowCollector: rows with solver-variable entries; np.argsort on the object column compares proxies, which forks on every comparison, so every ordering including ties is a "
               "path; per path z3 proves the sorted column is monotone and the rows are a permutation of whole input rows. "
               "DataPlotGrid: the real __init__ and items() generator are run with len/int/range/enumerate replaced in the module namespace, so that n = len(data), ncols and one loop index per run (i, then j) are symbolic unbounded integers and the loop bounds are z3 terms; "
               "z3 proves the cell map is a bijection between [0, nrows*ncols) and the grid, that data cells and missing cells are disjoint and exhaust it, normal and transposed; "
               "the glue between kernel and generator is checked by running the real generator for n<=12, ncols<=6. DataCombination: shapes of <=3 lists with lengths 0..3 are enumerated "
               "with opaque proxy elements and compared with the nested-loop model (no arithmetic for a solver to decide there; stated as exhaustive enumeration).")
ASSUMPTIONS = [
    "DataPlotGrid: int(a/k) and np.ceil(a/k) are evaluated over the reals (exact); that binary64 division gives the same integers is a separate lemma: for 0 <= a < 2^26, 1 <= k < 2^26 under the standard rounding model (correctly rounded quotient = (a/k)(1+d), |d| <= 2^-53, exact for integral quotients; nonlinear arithmetic, both tiers) and bit-precisely (QF_BVFP, z3) for operands below 2^12 in the thorough tier (2^26 bit-precise did not finish in 600 s on z3 4.8/5.1 or cvc5 1.0)",
    "ParameterTable: string keys only (integer keys are read as positions by __getitem__: outside), record values are reals",
    "RowCollector: list mode (array=False); numeric columns only",
]
OUTSIDE = ['ParameterTable without keys (plain list mode) beyond append/len/index', 'RowCollector array=True mode and heterogeneous columns', 'DataPlotGrid with ncols <= 0',
           'histories of table operations longer than one step are covered by the inductive step, not enumerated']
BOUNDS = {'quick': 'table: 16 states x 9 operations x 4 key choices; rows: k<=4, 2 columns, lists and dicts, both directions; grid: unbounded n>=0, ncols>=1; combination: <=3 lists of length 0..3',
          'thorough': 'rows k<=5; bit-precise FP lemma for operands < 2^12'}
EXHAUSTIVE = {'quick': True, 'thorough': True}

PT_PRE = '''
from collections import OrderedDict
from scinumtools import ParameterTable
FIELDS = ['x', 'y']
def K(k):
    return 'run_' + k         # built at run time: every call gives a new, equal string object (keys must be compared by value)
def build(v, keys):
    pt = ParameterTable(FIELDS, {K(k): (getattr(v, k + 'x'), getattr(v, k + 'y')) for k in keys}, keys=True)
    od = OrderedDict((K(k), (getattr(v, k + 'x'), getattr(v, k + 'y'))) for k in keys)
    return pt, od
def outcome(fn):
    try: return ('ok', fn())
    except Exception as e: return ('raised', None)
def observe(O, out, tag, pt, od):
    out.append((f'{tag}: len', O.same(len(pt), len(od))))
    out.append((f'{tag}: shape', O.same(pt.shape(), (len(od), 2))))
    out.append((f'{tag}: keys in insertion order', O.same(list(pt.keys()), list(od.keys()))))
    out.append((f'{tag}: items order', O.same([k for k, _ in pt.items()], list(od.keys()))))
    for pos, (k, (x, y)) in enumerate(od.items()):
        out.append((f'{tag}: contains {k}', O.same(k in pt, True)))
        for how, rec in (('key', pt[k]), ('equal key built again', pt[K(k[4:])]), ('position', pt[pos]), ('attribute', getattr(pt, k))):
            out.append((f'{tag}: {k} by {how}: x', O.eq(rec.x, x)))
            out.append((f'{tag}: {k} by {how}: y', O.eq(rec['y'], y)))
        out.append((f'{tag}: data() of {k}', O.eq(pt.data()[k]['x'], x)))
    for k0 in ('a', 'b', 'c', 'zz'):
        k = K(k0)
        if k not in od:
            out.append((f'{tag}: {k} absent', O.same(k in pt, False)))
            out.append((f'{tag}: {k} lookup refused', O.raises(lambda k=k: pt[k])))
'''
PT_SRC = '''
def run(v, O):
    pt, od = build(v, v.keys)
    out = []
    observe(O, out, 'before', pt, od)
    k = K(v.key)
    if v.op == 'append':
        pt.append(k, (v.nx, v.ny)); od[k] = (v.nx, v.ny)
    elif v.op == 'setitem':
        pt[k] = (v.nx, v.ny); od[k] = (v.nx, v.ny)
    elif v.op == 'delete':
        a = outcome(lambda: pt.__delitem__(k)); b = outcome(lambda: od.__delitem__(k))
        out.append(('delete: same outcome kind', O.same(a[0], b[0])))
    elif v.op == 'append-twice':
        pt.append(k, (v.nx, v.ny)); pt.append(k, (v.ny, v.nx)); od[k] = (v.ny, v.nx)
    elif v.op == 'delete-append':
        if k in od:
            del pt[k]; del od[k]
        pt.append(k, (v.nx, v.ny)); od[k] = (v.nx, v.ny)
    elif v.op == 'context':
        with pt as p2:
            p2[k] = (v.nx, v.ny)
        od[k] = (v.nx, v.ny)
    observe(O, out, 'after ' + v.op, pt, od)
    return out
'''
RC_PRE = '''
from scinumtools import RowCollector
'''
RC_SRC = '''
def run(v, O):
    rows = [[getattr(v, f'a{i}'), getattr(v, f'b{i}')] for i in range(v.k)]
    rc = RowCollector(['a', 'b'])
    for i, r in enumerate(rows):
        if (i + v.mode) % 2: rc.append({'b': r[1], 'a': r[0]})
        else: rc.append(list(r))
    out = [('append preserves rows', O.same(len(rc), v.k))]
    for i, r in enumerate(rows):
        out.append((f'row {i} stored column-wise: a', O.eq(rc.a[i], r[0])))
        out.append((f'row {i} stored column-wise: b', O.eq(rc['b'][i], r[1])))
    rc.sort(v.col, reverse=v.reverse)
    col = getattr(rc, v.col)
    for i in range(v.k - 1):
        out.append((f'sorted column monotone at {i}', O.ge(col[i], col[i + 1]) if v.reverse else O.le(col[i], col[i + 1])))
    # whole rows permuted: every output row is one of the input rows, each input row used once
    used = []
    ident = (lambda p, q: p is q) if O.symbolic else (lambda p, q: p == q)
    for i in range(v.k):
        hit = [j for j, r in enumerate(rows) if ident(r[0], rc.a[i]) and ident(r[1], rc.b[i]) and j not in used]
        out.append((f'output row {i} is a whole input row', O.same(bool(hit), True)))
        if hit: used.append(hit[0])
    out.append(('multiset of rows unchanged', O.same(sorted(used), list(range(v.k)))))
    out.append(('size unchanged', O.same(rc.size(), v.k)))
    return out
'''
DC_PRE = '''
from scinumtools import DataCombination
'''
DC_SRC = '''
def run(v, O):
    lists = [[getattr(v, f'e{i}_{j}') for j in range(n)] for i, n in enumerate(v.lens)]
    dc = DataCombination(lists)
    want_keys = [()]
    for n in v.lens:
        want_keys = [k + (j,) for k in want_keys for j in range(n)]
    want_vals = [tuple(lists[i][j] for i, j in enumerate(k)) for k in want_keys]
    keys = list(dc.keys()); vals = list(dc.values()); items = list(dc.items())
    out = [('keys are the index tuples of the product', O.same(keys, want_keys)), ('number of values', O.same(len(vals), len(want_vals))),
           ('items keys', O.same([k for k, _ in items], want_keys))]
    for p, wv in enumerate(want_vals):
        if p < len(vals):
            out.append((f'values[{p}]', O.same(all((a is b) if O.symbolic else (a == b) for a, b in zip(vals[p], wv)) and len(vals[p]) == len(wv), True)))
        if p < len(items):
            out.append((f'items[{p}] matches its index tuple', O.same(all((a is b) if O.symbolic else (a == b) for a, b in zip(items[p][1], wv)), True)))
    return out
'''


class Ratio:
    """a/k of two symbolic integers, kept exact: int() truncates, np.ceil() rounds up (integer div terms instead of real division;
    that binary64 a/k gives the same integers is the FP lemma's business)"""

    def __init__(self, a, k):
        self.a, self.k = core.lift_int(a), core.lift_int(k)

    def trunc(self):
        a, k = self.a, self.k
        return SymInt(z3.If(a >= 0, a / k, -((-a) / k)))      # k > 0 in every use (asserted by the loop domains)

    def ceil(self):
        a, k = self.a, self.k
        return SymInt(-((-a) / k))

    def __array_ufunc__(self, ufunc, method, *inputs, **kw):
        if ufunc.__name__ == 'ceil':
            return self.ceil()
        if ufunc.__name__ == 'floor':
            return SymInt(self.a / self.k)
        raise core.ProxyLeak(f'numpy {ufunc.__name__} on an integer ratio')


class GInt(SymInt):
    def __truediv__(self, o):
        return Ratio(self, o)


def _to_int(x=0, *a):
    if isinstance(x, Ratio):
        return x.trunc()
    return stubs.Int(x, *a)


def grid_task(task):
    """the real __init__ and items() generator run on symbolic integers (module-namespace stubs for len/int/range/enumerate hand out ONE symbolic loop index per run) + z3 over unbounded integers"""
    import scinumtools.data_plot_grid as M
    import numpy as np
    out = {'shapes': 0, 'paths': 0, 'obligations': 0, 'discharged': 0, 'raised_paths': 0, 'nontrivial': 0, 'findings': [], 'inconclusive': [], 'samples': [],
           'canaries': 0, 'canaries_fired': 0}
    eng = Engine(timeout_ms=20000)
    n, ncols, i, j = [GInt(z3.Int(x)) for x in ('n', 'ncols', 'i', 'j')]
    global_pre = [n.t >= 0, ncols.t >= 1]
    cur = {}

    def s_len(d):
        return n

    def s_range(*a):
        lo, hi = (0, a[0]) if len(a) == 1 else a[:2]
        cur['doms'].append(('range', core.lift_int(lo), core.lift_int(hi)))
        return [cur['idx']]

    def s_enumerate(it, start=0):
        ok = (it is cur['data']) or type(it).__name__ == 'dict_items'
        cur['doms'].append(('enumerate' if ok and start == 0 else 'enumerate?', z3.IntVal(0), n.t))
        return [(cur['idx'], ('k0', 'v0') if isinstance(cur['data'], dict) else 'd0')]
    MISSING = object()
    names = {'len': s_len, 'int': _to_int, 'range': s_range, 'enumerate': s_enumerate, 'float': stubs.Float}
    saved = {k: M.__dict__.get(k, MISSING) for k in names}
    kernels = []
    nrows = None
    try:
        for k, f in names.items():
            setattr(M, k, f)
        for kind, data in (('list', []), ('dict', {})):
            cur['data'] = data
            g = M.DataPlotGrid(data, ncols=ncols)
            if kind == 'list':
                nrows = g.nrows
            for missing in (False, True):
                if missing and kind == 'dict':
                    continue
                for transpose in (False, True):
                    cells = []
                    for var in (i, j):
                        cur['idx'], cur['doms'] = var, []
                        try:
                            ys = list(g.items(missing=missing, transpose=transpose))
                        except Exception as e:
                            out['inconclusive'].append(f'grid: items(missing={missing}, transpose={transpose}) on a {kind} could not be run on symbolic integers: {type(e).__name__}: {e}')
                            ys = None
                            break
                        if len(ys) != 1 or len(cur['doms']) != 1 or len(ys[0]) < 3:
                            out['inconclusive'].append(f'grid: items(missing={missing}, transpose={transpose}) on a {kind}: {len(cur["doms"])} loops / {len(ys)} yields for one loop index (unrecognised shape)')
                            ys = None
                            break
                        cells.append(ys[0])
                    if ys is None:
                        continue
                    kernels.append((kind, missing, transpose, cur['doms'][0], cells[0], cells[1]))
    finally:
        for k, v0 in saved.items():
            if v0 is MISSING:
                delattr(M, k)
            else:
                setattr(M, k, v0)
    if nrows is None or isinstance(nrows, SymReal) or not hasattr(nrows, 't'):
        out['inconclusive'].append('grid: nrows did not evaluate to an integer term')
        out['stats'] = eng.stats.as_dict()
        return out
    N = ncols * nrows

    def prove(label, claim, extra):
        out['obligations'] += 1
        r, m = eng.prove(global_pre + extra, claim)
        if r == 'unsat':
            out['discharged'] += 1
        elif r == 'sat':
            vals = {k: core.model_value(m, t.t) for k, t in (('n', n), ('ncols', ncols), ('i', i), ('j', j))}
            out['discharged'] += 1
            out['findings'].append({'key': f'grid/{label}', 'what': f'DataPlotGrid: {label} fails at {vals}', 'model': vals, 'replay': GRID_REPLAY % (vals['n'], vals['ncols'])})
        else:
            out['inconclusive'].append(f'grid/{label}: unknown')
    # nrows is the ceiling of n/ncols
    prove('nrows = ceil(n/ncols)', z3.And(nrows.t * ncols.t >= n.t, (nrows.t - 1) * ncols.t < n.t), [])
    for kind, missing, transpose, (domkind, lo, hi), ci, cj in kernels:
        out['shapes'] += 1
        out['nontrivial'] += 1
        tag = f"{'missing' if missing else 'data'}/{'transposed' if transpose else 'normal'}/{kind}"
        if domkind == 'enumerate?':
            out['inconclusive'].append(f'grid/{tag}: enumerate() over something else than the data')
            continue
        if missing:
            prove(f'{tag}: the loop runs over the indices behind the data, up to the size of the grid', z3.And(lo == n.t, hi == N.t), [])
        elif domkind == 'range':
            prove(f'{tag}: the loop runs over the data indices', z3.And(lo == 0, hi == n.t), [])
        dom_i = [i.t >= lo, i.t < hi]
        dom_j = [j.t >= lo, j.t < hi]
        r_i, c_i = core.lift_int(ci[1]), core.lift_int(ci[2])
        r_j, c_j = core.lift_int(cj[1]), core.lift_int(cj[2])
        prove(f'{tag}: index reported', core.lift_int(ci[0]) == i.t, dom_i)
        prove(f'{tag}: inside the grid', z3.And(r_i >= 0, r_i < nrows.t, c_i >= 0, c_i < ncols.t), dom_i)
        prove(f'{tag}: distinct items get distinct cells', z3.Or(r_i != r_j, c_i != c_j), dom_i + dom_j + [i.t != j.t])
        # linearisation: the cell determines the index (row-major / column-major), which makes data and missing cells disjoint and jointly exhaustive
        lin = r_i * ncols.t + c_i if not transpose else c_i * nrows.t + r_i
        prove(f'{tag}: cell linearises to the index', lin == i.t, dom_i)
        if not missing:
            out['obligations'] += 1
            out['discharged'] += 1
            want = ('k0', 'v0') if kind == 'dict' else ('d0',)
            if tuple(ci[3:]) != want:
                out['findings'].append({'key': f'grid/{tag}/payload', 'what': f'DataPlotGrid: {tag}: the item handed out with its cell is {tuple(ci[3:])!r}, expected {want!r}', 'model': {}, 'replay': GRID_REPLAY % (5, 2)})
        out['paths'] += 1
    # every cell is hit: for r,c in the grid the index r*ncols+c lies in [0, N) = data range + missing range
    r, c = z3.Int('r'), z3.Int('c')
    prove('cover: every cell index is in a loop domain', z3.And(r * ncols.t + c >= 0, r * ncols.t + c < N.t, z3.Or(r * ncols.t + c < n.t, r * ncols.t + c >= n.t)),
          [r >= 0, r < nrows.t, c >= 0, c < ncols.t])
    prove('cover (transposed)', z3.And(c * nrows.t + r >= 0, c * nrows.t + r < N.t), [r >= 0, r < nrows.t, c >= 0, c < ncols.t])
    # canary
    out['canaries'] += 1
    rr, _ = eng.prove(global_pre, nrows.t * ncols.t == n.t)
    out['canaries_fired'] += 1 if rr == 'sat' else 0
    # glue: the real generator yields exactly the kernel expressions for these domains
    from scinumtools import DataPlotGrid
    bad = None
    for nn in range(0, 13):
        for nc in range(1, 7):
            for tr in (False, True):
                for data in (list(range(100, 100 + nn)), {f'k{q}': q for q in range(nn)}):
                    g = DataPlotGrid(data, ncols=nc)
                    cells = [(t[1], t[2]) for t in g.items(transpose=tr)] + [(t[1], t[2]) for t in g.items(missing=True, transpose=tr)]
                    idxs = [t[0] for t in g.items(transpose=tr)] + [t[0] for t in g.items(missing=True, transpose=tr)]
                    payload = [t[3:] for t in g.items(transpose=tr)]
                    exp_payload = [(d,) for d in data] if isinstance(data, list) else [(k, v) for k, v in data.items()]
                    if sorted(cells) != [(a, b) for a in range(g.nrows) for b in range(nc)] or idxs != list(range(g.nrows * nc)) or payload != exp_payload:
                        bad = bad or (nn, nc, tr, type(data).__name__)
    out['obligations'] += 1
    if bad is None:
        out['discharged'] += 1
    else:
        out['discharged'] += 1
        out['findings'].append({'key': 'grid/glue', 'what': f'DataPlotGrid generator does not cover the grid exactly once at {bad}', 'model': {'case': bad}, 'replay': GRID_REPLAY % (bad[0], bad[1])})
    out['samples'].append({'grid_kernels': [f'{k[0]}/missing={k[1]}/transpose={k[2]}: row={core.lift_int(k[4][1])} col={core.lift_int(k[4][2])}'[:300] for k in kernels], 'nrows': str(nrows.t)[:200]})
    fp_model_lemma(out)
    out['stats'] = eng.stats.as_dict()
    return out


GRID_REPLAY = '''import sys
from scinumtools import DataPlotGrid
n, ncols = %d, %d
bad = []
for tr in (False, True):
    for data in (list(range(n)), {str(q): q for q in range(n)}):
        g = DataPlotGrid(data, ncols=ncols)
        cells = [(t[1], t[2]) for t in g.items(transpose=tr)] + [(t[1], t[2]) for t in g.items(missing=True, transpose=tr)]
        if sorted(cells) != [(a, b) for a in range(g.nrows) for b in range(ncols)] or g.nrows != -(-n // ncols):
            bad.append((tr, type(data).__name__, g.nrows, cells[:8]))
print('n', n, 'ncols', ncols, 'bad', bad)
sys.exit(1 if bad else 0)
'''


FP_BITS = 12


def fp_model_lemma(out):
    """binary64 division of integers 0 <= a < 2^26 by 1 <= k < 2^26 under the standard rounding model (the correctly rounded quotient is
    (a/k)(1+d) with |d| <= 2^-53, and exact when a/k is an integer): trunc gives a div k, ceil gives the integer ceiling.  Nonlinear integer/real arithmetic."""
    a, k, q, r = z3.Ints('fa fk fq fr')
    d = z3.Real('fd')
    B = 1 << 26
    eps = z3.Q(1, 1 << 53)
    dom = [a >= 0, a < B, k >= 1, k < B, a == q * k + r, r >= 0, r < k, d >= -eps, d <= eps, z3.Implies(r == 0, d == 0)]
    vk = z3.ToReal(a) * (1 + d)          # k * fl(a/k)
    claims = (('rounding model: q <= fl(a/k) < q+1, so int(a/k) = a div k', z3.And(z3.ToReal(q * k) <= vk, vk < z3.ToReal((q + 1) * k))),
              ('rounding model: ceil(fl(a/k)) is the integer ceiling', z3.If(r == 0, vk == z3.ToReal(q * k), z3.And(z3.ToReal(q * k) < vk, vk <= z3.ToReal((q + 1) * k)))))
    for name, claim in claims:
        out['obligations'] += 1
        s = z3.Solver()
        s.set('timeout', 120000)
        s.add(*dom, z3.Not(claim))
        res = str(s.check())
        if res == 'unsat':
            out['discharged'] += 1
        else:
            out['inconclusive'].append(f'FP lemma ({name}): solver answered {res}')
    # vacuity: the domain is satisfiable and a wrong claim is refuted
    out['canaries'] += 1
    s = z3.Solver()
    s.set('timeout', 60000)
    s.add(*dom, z3.Not(2 * vk < z3.ToReal((2 * q + 1) * k)))
    out['canaries_fired'] += 1 if str(s.check()) == 'sat' else 0


def fp_lemma(out, which):
    """bit-precise binary64 (QF_BVFP): trunc(a/k) = a div k / ceil(a/k) = ceiling for integers 0 <= a < 2^FP_BITS, 1 <= k < 2^FP_BITS"""
    a, k = z3.BitVec('a', 32), z3.BitVec('k', 32)
    fa = z3.fpSignedToFP(z3.RNE(), a, z3.Float64())
    fk = z3.fpSignedToFP(z3.RNE(), k, z3.Float64())
    q = z3.fpDiv(z3.RNE(), fa, fk)
    tr = z3.fpToSBV(z3.RTZ(), q, z3.BitVecSort(32))
    ce = z3.fpToSBV(z3.RTP(), q, z3.BitVecSort(32))
    dom = [a >= 0, a < (1 << FP_BITS), k >= 1, k < (1 << FP_BITS)]
    qd = z3.UDiv(a, k)
    name, claim = (('trunc(a/k) = a div k', tr == qd), ('ceil(a/k) = ceil', ce == z3.If(z3.URem(a, k) == 0, qd, qd + 1)))[which]
    out['obligations'] += 1
    s = z3.Solver()
    s.set('timeout', 1500000)
    s.add(*dom, z3.Not(claim))
    r = str(s.check())
    if r == 'unsat':
        out['discharged'] += 1
    elif r == 'sat':
        out['discharged'] += 1
        m = s.model()
        out['inconclusive'].append(f'FP lemma {name} refuted at a={m[a]}, k={m[k]}: the integer model of int(a/k) is not valid')
    else:
        out['inconclusive'].append(f'bit-precise FP lemma {name} (operands < 2^{FP_BITS}): solver answered {r} within 1500 s')


def fp_task(task):
    out = {'shapes': 1, 'paths': 1, 'obligations': 0, 'discharged': 0, 'raised_paths': 0, 'nontrivial': 1, 'findings': [], 'inconclusive': [], 'samples': [], 'canaries': 0, 'canaries_fired': 0}
    import time as _t
    t0 = _t.time()
    fp_lemma(out, task['which'])
    out['stats'] = {'queries': 1, 'unsat': out['discharged'], 'sat': 0, 'unknown': len(out['inconclusive']), 'solver_s': round(_t.time() - t0, 1), 'paths': 1}
    return out


def scenarios(tier, seed):
    S = []
    pool = ['a', 'b', 'c']
    states = [()]
    for r in (1, 2, 3):
        states += list(itertools.permutations(pool, r))
    vals = {f'{k}{f}': 'real' for k in pool for f in 'xy'}
    vals.update({'nx': 'real', 'ny': 'real'})
    for keys in states:
        for op in ('append', 'setitem', 'delete', 'append-twice', 'delete-append', 'context', 'read-only'):
            for key in pool + ['zz']:
                if op == 'read-only' and key != 'a':
                    continue
                S.append(Scenario(f'table/{"".join(keys) or "-"}/{op}/{key}', PT_SRC, vals, consts={'keys': list(keys), 'op': op, 'key': key}, preamble=PT_PRE,
                                  what=f'ParameterTable state {keys} then {op}({key})', samples=1))
    kmax = 4 if tier == 'quick' else 5
    for k in range(1, kmax + 1):
        for col in ('a', 'b'):
            for rev in (False, True):
                for mode in (0, 1):
                    if k == kmax and (mode == 1 or col == 'b') and tier == 'quick':
                        continue
                    inp = {f'{c}{i}': 'real' for i in range(k) for c in 'ab'}
                    other = 'b' if col == 'a' else 'a'
                    distinct = [f'v.{other}{p} != v.{other}{q}' for p in range(k) for q in range(p + 1, k)]   # rows stay distinguishable when the sort column has ties
                    S.append(Scenario(f'rows/{k}/{col}/{"desc" if rev else "asc"}/{mode}', RC_SRC, inp, distinct, consts={'k': k, 'col': col, 'reverse': rev, 'mode': mode}, preamble=RC_PRE,
                                      what=f'RowCollector with {k} rows sorted by {col}' + (' reversed' if rev else ''), samples=2))
    for lens in itertools.chain.from_iterable(itertools.product(range(0, 4), repeat=r) for r in (1, 2, 3)):
        inp = {f'e{i}_{j}': 'real' for i, n in enumerate(lens) for j in range(n)}
        S.append(Scenario(f'combination/{"x".join(map(str, lens))}', DC_SRC, inp, consts={'lens': list(lens)}, preamble=DC_PRE, what=f'DataCombination of lists with lengths {lens}', samples=1))
    S.append(Scenario('canary/rows', RC_SRC.replace("O.ge(col[i], col[i + 1]) if v.reverse else O.le(col[i], col[i + 1])", "O.lt(col[i], col[i + 1])"),
                      {'a0': 'real', 'b0': 'real', 'a1': 'real', 'b1': 'real'}, consts={'k': 2, 'col': 'a', 'reverse': False, 'mode': 0}, preamble=RC_PRE, canary=True))
    S.append(Scenario('canary/table', PT_SRC.replace("od[k] = (v.nx, v.ny)\n    elif v.op == 'setitem'", "od[k] = (v.ny, v.nx)\n    elif v.op == 'setitem'"), vals,
                      consts={'keys': ['a'], 'op': 'append', 'key': 'b'}, preamble=PT_PRE, canary=True))
    return S


NT = 15


def tasks(tier, seed):
    return ([{'id': f'c20-{i:02d}', 'tier': tier, 'seed': seed, 'slice': [i, NT], 'part': 'S'} for i in range(NT)]
            + [{'id': 'c20-grid', 'tier': tier, 'seed': seed, 'part': 'G'}]
            + ([{'id': f'c20-fp-{w}', 'tier': tier, 'seed': seed, 'part': 'F', 'which': w} for w in (0, 1)] if tier != 'quick' else []))


import contextlib


@contextlib.contextmanager
def nopatch():
    yield


def run_task(task):
    if task['part'] == 'G':
        return grid_task(task)
    if task['part'] == 'F':
        return fp_task(task)
    S = scenarios(task['tier'], task['seed'])
    i, k = task['slice']
    return run_scenarios(S[i::k], nopatch, timeout_ms=20000, seed=task['seed'], wall_s=600, max_paths=20000)
