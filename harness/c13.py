"""C13 - DIP node paths follow indentation and values are the literals written."""
import random

from vf.scen import Scenario, run_scenarios
from harness import dipkit

PROPERTY = 'C13'
ENCODED = ['scinumtools.dip.dip:DIP._get_queue', 'scinumtools.dip.dip:DIP._determine_node', 'scinumtools.dip.dip:DIP.parse', 'scinumtools.dip.nodes.parser:Parser.part_indent',
           'scinumtools.dip.nodes.parser:Parser.part_name', 'scinumtools.dip.nodes.parser:Parser.part_type', 'scinumtools.dip.nodes.parser:Parser.part_value',
           'scinumtools.dip.nodes.parser:Parser.part_units', 'scinumtools.dip.nodes.parser:Parser._part_dimension', 'scinumtools.dip.lists.list_hierarchy:HierarchyList.register',
           'scinumtools.dip.nodes.node_base:BaseNode.cast_value', 'scinumtools.dip.nodes.node_table:TableNode.parse', 'scinumtools.dip.environment:Environment.data']
EXPLANATION = ("The indentation width of every line is a solver integer: the queue is built by the real _get_queue() from the text, each node's indent is replaced by its solver "
               "variable and the real parse() loop runs, so every comparison in HierarchyList.register is decided by z3. Two regimes: 'consistent' (constraints say children of one "
               "parent share an indent greater than the parent's) where a single path proves the tree for ALL widths, and 'free' (no constraint) where the oracle 'parent = nearest "
               "preceding node or group line with smaller indentation' is evaluated on the same variables and both sides fork together. Float values are solver variables; comment and "
               "blank lines are interleaved. Literal forms (notations, quotes, none, arrays, blocks, tables, width/sign suffixes, units) are an enumerated concrete list.")
ASSUMPTIONS = dipkit.DIP_STUB_TEXT + [
    "symbolic indents are written into the queue returned by the real _get_queue() (harness wrapper around the bound method of the DIP instance); the text itself is rendered with "
    "placeholder widths because line classification does not depend on the width (Parser.part_indent only counts blanks)",
]
OUTSIDE = ['string arrays written with single-quoted elements (the value is handed to a JSON parser; the documentation shows that form but only double quotes parse)', 'tabs as indentation', 'programs longer than 8 lines (10 thorough) in the symbolic-indent harness', 'DIP directives other than groups/definitions/modifications here (C14-C17)']
BOUNDS = {'quick': '90 line skeletons of 2..7 lines (consistent regime, all widths) + 40 of <=5 lines (free regime); 60 literal forms',
          'thorough': '500 skeletons up to 9 lines consistent + 160 free up to 6 lines'}
EXHAUSTIVE = {'quick': False, 'thorough': False}
PRE = dipkit.DIP_SRC + r'''
def parse_lines(O, lines, indents):
    """one (possibly multi-line) text per item, without indentation, + one (possibly symbolic) width per item"""
    if not O.symbolic:
        out = []
        for l, w in zip(lines, indents):
            parts = l.split('\n')
            out.append(((' ' * int(w) + parts[0]) if parts[0].strip() else parts[0]) + ''.join('\n' + p for p in parts[1:]))
        return dip_parse('\n'.join(out))
    item_of_line = {}
    n = 0
    started = False               # add_string() drops leading empty lines before it numbers them
    for idx, l in enumerate(lines):
        for part in l.split('\n'):
            if not started and part.strip() == '':
                continue
            started = True
            n += 1
            item_of_line[n] = idx
    with DIP() as p:
        p.add_string('\n'.join(lines))
        real = p._get_queue
        def with_symbolic_indents():
            q = real()
            for node in q.nodes:
                if node.keyword != 'empty':
                    node.indent = indents[item_of_line[node.source[1]]]
            return q
        p._get_queue = with_symbolic_indents
        return p.parse()
def expected(O, v, prog, indents):
    """oracle: parent = nearest preceding named line with smaller indentation (backward scan, not a stack)"""
    named = [(i, it) for i, it in enumerate(prog) if it[0] in ('group', 'def', 'mod', 'table')]
    paths = {}
    out = {}
    for pos, (i, it) in enumerate(named):
        parent = None
        for j in range(pos - 1, -1, -1):
            pi = named[j][0]
            if indents[pi] < indents[i]:       # forks in the free regime, implied in the consistent one
                parent = pi
                break
        path = (paths[parent] + '.' if parent is not None else '') + it[1]
        paths[i] = path
        if it[0] in ('def', 'mod'):
            out[path] = getattr(v, it[2])
        if it[0] == 'table':
            out[path + '.col'] = [1]
            out[path + '.val'] = [getattr(v, it[2])]
    return out
def render(O, v, prog):
    lines = []
    for it in prog:
        k = it[0]
        if k == 'group': lines.append(it[1])
        elif k == 'def': lines.append(f'{it[1]} float = {O.lit(getattr(v, it[2]))}' + ('   # trailing comment' if it[3] == 1 else '#glued comment' if it[3] == 2 else ''))
        elif k == 'mod': lines.append(f'{it[1]} = {O.lit(getattr(v, it[2]))}')
        elif k == 'table': lines.append(f'{it[1]} table = """\ncol int\nval float\n\n1 {O.lit(getattr(v, it[2]))}\n"""')
        elif k == 'comment': lines.append('# just a comment')
        elif k == 'blank': lines.append('')
    return lines
'''
TREE_SRC = '''
def run(v, O):
    indents = [getattr(v, f'w{i}') for i in range(len(v.prog))]
    lines = render(O, v, v.prog)
    env = parse_lines(O, lines, indents)
    data = env.data(Format.TUPLE)
    want = expected(O, v, v.prog, indents)
    out = [('one parameter per distinct node, in order of first appearance', O.same(list(data.keys()), list(want.keys())))]
    for k, val in want.items():
        if k in data:
            if isinstance(val, list):
                out.append((f'value of {k}', O.eq(data[k][0], val[0]) if len(data[k]) == 1 else False))
            else:
                out.append((f'value of {k}', O.eq(data[k], val)))
    # comment / blank lines removed: same result
    keep = [i for i, it in enumerate(v.prog) if it[0] not in ('comment', 'blank')]
    if len(keep) < len(v.prog):
        env2 = parse_lines(O, [lines[i] for i in keep], [indents[i] for i in keep])
        d2 = env2.data(Format.TUPLE)
        out.append(('comments and blank lines change nothing: keys', O.same(list(d2.keys()), list(data.keys()))))
    return out
'''
LIT_SRC = '''
import numpy as np
def run(v, O):
    out = []
    for label, text, path, want_value, want_unit, want_type in v.cases:
        r = outcome(lambda: dip_parse(text))
        if r[0] != 'ok':
            out.append((f'{label}: parsed', O.same(r, 'ok')))
            continue
        env = r[1]
        data = env.data(Format.VALUE); types = env.data(Format.TYPE)
        out.append((f'{label}: path', O.same(path in data, True)))
        if path not in data: continue
        got = data[path]
        out.append((f'{label}: value', O.same(np.asarray(got).tolist() if isinstance(got, (list, np.ndarray)) else got, want_value)))
        out.append((f'{label}: unit', O.same(types[path].unit, want_unit)))
        tname, prec, uns = want_type
        out.append((f'{label}: data type', O.same(type(types[path]).__name__, tname)))
        if prec is not None: out.append((f'{label}: precision', O.same(int(types[path].precision), prec)))
        if uns is not None: out.append((f'{label}: unsigned', O.same(bool(types[path].unsigned), uns)))
    return out
'''
F, I, B, S = 'FloatType', 'IntegerType', 'BooleanType', 'StringType'
LITERALS = [
    ('true', 'a bool = true', 'a', True, None, (B, None, None)), ('false', 'a bool = false', 'a', False, None, (B, None, None)),
    ('int', 'a int = 2023', 'a', 2023, None, (I, 32, False)), ('negative int', 'a int = -17', 'a', -17, None, (I, 32, False)), ('int zero', 'a int = 0', 'a', 0, None, (I, 32, False)),
    ('float integer form', 'a float = 10', 'a', 10.0, None, (F, 64, None)), ('float decimal', 'a float = 23.3', 'a', 23.3, None, (F, 64, None)),
    ('float scientific', 'a float = 2.3e20', 'a', 2.3e20, None, (F, 64, None)), ('float negative exponent', 'a float = -1.5E-3', 'a', -1.5e-3, None, (F, 64, None)),
    ('float zero', 'a float = 0.0', 'a', 0.0, None, (F, 64, None)), ('float with unit', 'a float = 2.5 km/s', 'a', 2.5, 'km/s', (F, 64, None)),
    ('int with unit', 'a int = 3 m', 'a', 3, 'm', (I, 32, False)), ('bare string', 'a str = John', 'a', 'John', None, (S, None, None)),
    ('single quoted', "a str = 'New York'", 'a', 'New York', None, (S, None, None)), ('double quoted', 'a str = "United Kingdoms"', 'a', 'United Kingdoms', None, (S, None, None)),
    ('quoted with hash', "a str = 'no # comment'", 'a', 'no # comment', None, (S, None, None)), ('string with comment', "a str = word   # c", 'a', 'word', None, (S, None, None)),
    ('escaped quote', "a str = 'it\\'s'".replace(chr(92) * 2, chr(92)), 'a', "it's", None, (S, None, None)),
    ('none str', 'a str = none', 'a', None, None, (S, None, None)), ('none float with unit', 'a float = none m', 'a', None, 'm', (F, 64, None)), ('none bool', 'a bool = none', 'a', None, None, (B, None, None)),
    ('int16', 'a int16 = 5', 'a', 5, None, (I, 16, False)), ('int64', 'a int64 = 5', 'a', 5, None, (I, 64, False)), ('uint16', 'a uint16 = 5', 'a', 5, None, (I, 16, True)),
    ('uint32', 'a uint32 = 5', 'a', 5, None, (I, 32, True)), ('uint64 big', 'a uint64 = 29349850209348495020394849', 'a', 29349850209348495020394849, None, (I, 64, True)),
    ('int32', 'a int32 = 5', 'a', 5, None, (I, 32, False)), ('float32', 'a float32 = 1.5', 'a', 1.5, None, (F, 32, None)), ('float64', 'a float64 = 1.5', 'a', 1.5, None, (F, 64, None)),
    ('float128', 'a float128 = 1.5 kg', 'a', 1.5, 'kg', (F, 128, None)),
    ('bool array', 'a bool[4] = [true,false,false,true]', 'a', [True, False, False, True], None, (B, None, None)), ('int array any', 'a int[:] = [0,1,2,3]', 'a', [0, 1, 2, 3], None, (I, 32, False)),
    ('float array min', 'a float[3:] = [0,1.34,1.34e4]', 'a', [0.0, 1.34, 13400.0], None, (F, 64, None)), ('float array max', 'a float[:4] = [0,1.34,1.34e4]', 'a', [0.0, 1.34, 13400.0], None, (F, 64, None)),
    ('str array', 'a str[3:4] = ["John","Peter","Simon"]', 'a', ['John', 'Peter', 'Simon'], None, (S, None, None)),
    ('loose notation quoted', "a bool[4] = '[true, false, false, true]'", 'a', [True, False, False, True], None, (B, None, None)),
    ('loose str array', '''a str[3:4] = '["John", "Peter", "Simon"]' '''.strip(), 'a', ['John', 'Peter', 'Simon'], None, (S, None, None)),
    ('matrix', 'a int[2,3] = [[0,1,2],[3,4,5]]', 'a', [[0, 1, 2], [3, 4, 5]], None, (I, 32, False)),
    ('matrix with unit', 'a float[2:,:2] = [[25,50],[34.2,95.1],[1e3,1e4]] kg', 'a', [[25.0, 50.0], [34.2, 95.1], [1000.0, 10000.0]], 'kg', (F, 64, None)),
    ('block array', 'a int[2,2] = """\n[[ 0, 1],\n [ 5, 6]]\n""" km/s', 'a', [[0, 1], [5, 6]], 'km/s', (I, 32, False)),
    ('block text', 'a str = """\nline one\nline two\n"""', 'a', 'line one\nline two', None, (S, None, None)),
    ('uint16 array', 'a uint16[2] = [7,8]', 'a', [7, 8], None, (I, 16, True)),
    ('table with a header and no rows: int column', 't table = """\nx int\ny float m\nz str\nw bool\n\n"""', 't.x', [], None, (I, 32, False)),
    ('table with a header and no rows: float column keeps its unit', 't table = """\nx int\ny float m\nz str\nw bool\n\n"""', 't.y', [], 'm', (F, 64, None)),
    ('table with a header and no rows: str column', 'g\n  t table = """\nx int\nz str\n\n"""\n  after int = 0', 'g.t.z', [], None, (S, None, None)),
    ('table with a header and no rows: bool column', 't table = """\nw bool\n\n"""', 't.w', [], None, (B, None, None)),
    ('table with a header and no rows: node behind it', 'g\n  t table = """\nx int\nz str\n\n"""\n  after int = 7', 'g.after', 7, None, (I, 32, False)),
    ('empty int array', 'a int[:] = []', 'a', [], None, (I, 32, False)), ('empty float array with unit', 'a float[:] = [] m', 'a', [], 'm', (F, 64, None)), ('empty str array', 'a str[:] = []', 'a', [], None, (S, None, None)),
    ('array with one element', 'a float[1] = [2.5]', 'a', [2.5], None, (F, 64, None)), ('1x1 matrix', 'a int[1,1] = [[-3]]', 'a', [[-3]], None, (I, 32, False)), ('array with one zero', 'a int[1:] = [0]', 'a', [0], None, (I, 32, False)),
    ('table whose separator line holds blanks', 't table = """\nx int\n   \n1\n3\n"""', 't.x', [1, 3], None, (I, 32, False)),
    ('table whose separator line holds blanks, two columns', 'g\n  t table = """\nx int\ny float m\n  \n1 2.5\n3 4.5\n"""\n  after int = 1', 'g.t.y', [2.5, 4.5], 'm', (F, 64, None)),
    ('table with a single row', 't table = """\nx int\ny float m\n\n1 2.5\n"""', 't.y', [2.5], 'm', (F, 64, None)),
    ('table int column', 'out table = """\nsnap int\ntime float s\n\n0 0.234\n1 1.355\n2 2.535\n"""', 'out.snap', [0, 1, 2], None, (I, 32, False)),
    ('table float column with unit', 'out table = """\nsnap int\ntime float s\n\n0 0.234\n1 1.355\n2 2.535\n"""', 'out.time', [0.234, 1.355, 2.535], 's', (F, 64, None)),
    ('table three columns', 'g\n  t table = """\na int\nb str\nc bool\n\n1 x true\n2 y false\n"""', 'g.t.b', ['x', 'y'], None, (S, None, None)),
    ('table bool column', 'g\n  t table = """\na int\nb str\nc bool\n\n1 x true\n2 y false\n3 z true\n"""', 'g.t.c', [True, False, True], None, (B, None, None)),
    ('table after a sibling node', 'box\n  n int = 1\n  t table = """\nx int\ny float m\n\n1 2.5\n3 4.5\n"""', 'box.t.y', [2.5, 4.5], 'm', (F, 64, None)),
    ('root table after a root node', 'g int = 1\nt table = """\nx int\n\n1\n3\n"""', 't.x', [1, 3], None, (I, 32, False)),
    ('table after a group with children', 'box\n  sub\n    q int = 1\n  t table = """\nx int\n\n1\n"""', 'box.t.x', [1], None, (I, 32, False)),
    ('comment glued to a bare int', 'a int = 3# note', 'a', 3, None, (I, 32, False)), ('comment glued to a bare string', 'a str = run42#note', 'a', 'run42', None, (S, None, None)),
    ('comment glued to a float with unit', 'a float = 1.5 m#c', 'a', 1.5, 'm', (F, 64, None)), ('comment glued to a quoted string', "a str = 'x y'#c", 'a', 'x y', None, (S, None, None)),
    ('block text closed by indented quotes', 'g\n  t str = """\nfirst line\n  second line\n  """', 'g.t', 'first line\n  second line', None, (S, None, None)),
    ('block text closed by deeply indented quotes', 'g\n  h\n    t str = """\nabc\n        """', 'g.h.t', 'abc', None, (S, None, None)),
    ('block array closed by indented quotes', 'g\n  a int[2] = """\n[1,\n 2]\n  """ m', 'g.a', [1, 2], 'm', (I, 32, False)),
    ('nested under groups', 'g\n  h\n    a float = 1.5 m', 'g.h.a', 1.5, 'm', (F, 64, None)), ('dotted name', 'g.h.a float = 1.5 m', 'g.h.a', 1.5, 'm', (F, 64, None)),
    ('dotted name under group', 'g\n  h.a int = 4', 'g.h.a', 4, None, (I, 32, False)), ('child of a typed node', 'f str = x\n  c int = 1', 'f.c', 1, None, (I, 32, False)),
    ('name with hyphen and digits', 'a-1_b int = 4', 'a-1_b', 4, None, (I, 32, False)), ('trailing comment after unit', 'a float = 1 m # c', 'a', 1.0, 'm', (F, 64, None)),
    ('comment line between', 'g\n  # c\n\n  a int = 2', 'g.a', 2, None, (I, 32, False)), ('de-indent by two levels', 'g\n  h\n    a int = 1\nb int = 2', 'b', 2, None, (I, 32, False)),
    ('node written twice in a re-opened group: last literal zero', 'run\n  retries int = 3\n  offset int = 5 mm\nrun\n  retries int = 0', 'run.retries', 0, None, (I, 32, False)),
    ('node written twice with a unit: last literal zero', 'run\n  offset int = 5 mm\nrun\n  offset int = 0 mm', 'run.offset', 0, 'mm', (I, 32, False)),
    ('float written twice: last literal zero', 'a float = 2.5 m\na float = 0 m', 'a', 0.0, 'm', (F, 64, None)),
    ('table string column with the words true and false', 'run\n  flags table = """\nid int\nlabel str\n\n1 on\n2 false\n3 "two words"\n4 true\n"""', 'run.flags.label', ['on', 'false', 'two words', 'true'], None, (S, None, None)),
    ('table bool column next to a string column', 't table = """\nlabel str\nok bool\n\ntrue false\nfalse true\n"""', 't.ok', [False, True], None, (B, None, None)),
    ('bare string containing = and ?', 'url str = http://host/q?id=7', 'url', 'http://host/q?id=7', None, (S, None, None)), ('bare string ending with ==', 'k str = abc==', 'k', 'abc==', None, (S, None, None)),
    ('bare string containing = before a comment', 'a str = x=y  # c', 'a', 'x=y', None, (S, None, None)), ('quoted string containing =', "q str = 'a=b'", 'q', 'a=b', None, (S, None, None)),
    ('string array whose elements contain =', 'a str[3] = ["mode=fast","n=2","plain"]', 'a', ['mode=fast', 'n=2', 'plain'], None, (S, None, None)),
    ('table column name with a dot', 't table = """\npos.x float cm\nt-max float32 s\n\n1.5 2\n2.5 3\n"""', 't.pos.x', [1.5, 2.5], 'cm', (F, 64, None)),
    ('table column name with a hyphen', 't table = """\npos.x float cm\nt-max float32 s\n\n1.5 2\n2.5 3\n"""', 't.t-max', [2.0, 3.0], 's', (F, 32, None)),
    ('unsigned node written twice keeps width and sign', 'g\n  c uint16 = 128\ng.c uint16 = 256', 'g.c', 256, None, (I, 16, True)),
    ('uint64 written twice keeps width and sign', 'n uint64 = 1\nn uint64 = 18446744073709551615', 'n', 18446744073709551615, None, (I, 64, True)),
    ('float32 written twice keeps its width', 'h float32 = 1.5 m\nh float32 = 2.5 m', 'h', 2.5, 'm', (F, 32, None)),
    ('block array closed directly behind its last row', 'edges float[3] = """\n[0.5,\n 1e3,\n 2]""" m\nb int = 1', 'edges', [0.5, 1000.0, 2.0], 'm', (F, 64, None)),
    ('node after a block closed behind its last row', 'edges float[3] = """\n[0.5,\n 1e3,\n 2]""" m\nb int = 1', 'b', 1, None, (I, 32, False)),
    ('none for an array node', 'a int[3] = none', 'a', None, None, (I, 32, False)), ('none for a matrix node with unit', 'a float32[2,2] = none cm', 'a', None, 'cm', (F, 32, None)),
    ('comment containing a minus after a unit', 'a float = 3 km  # outer - inner', 'a', 3.0, 'km', (F, 64, None)), ('comment containing a slash after a unit', 'a float = 3 km # a / b', 'a', 3.0, 'km', (F, 64, None)),
    ('comment containing a star after a unit', 'a float = 3 km # 2 * x', 'a', 3.0, 'km', (F, 64, None)), ('comment containing a plus, no unit', 'a int = 3 # x + y', 'a', 3, None, (I, 32, False)),
    ('comment containing a minus after a bare string', 'a str = x # y - z', 'a', 'x', None, (S, None, None)),
    ('float leading point', 'a float = .5', 'a', 0.5, None, (F, 64, None)), ('float trailing point', 'a float = 5.', 'a', 5.0, None, (F, 64, None)), ('float plus sign', 'a float = +2.0', 'a', 2.0, None, (F, 64, None)),
    ('float capital exponent', 'a float = 1E5', 'a', 1e5, None, (F, 64, None)), ('float point and exponent with unit', 'a float = -.25e1 m', 'a', -2.5, 'm', (F, 64, None)),
    ('int plus sign', 'a int = +7', 'a', 7, None, (I, 32, False)), ('int leading zeros', 'a int = 007', 'a', 7, None, (I, 32, False)),
    ('table int column in free notation', 'out table = """\nk int\nx float m\n\n+7 .5\n007 5.\n-2 +2.0\n3 -.25e1\n"""', 'out.k', [7, 7, -2, 3], None, (I, 32, False)),
    ('table float column in free notation', 'out table = """\nk int\nx float m\n\n+7 .5\n007 5.\n-2 +2.0\n3 -.25e1\n"""', 'out.x', [0.5, 5.0, 2.0, -2.5], 'm', (F, 64, None)),
    ('table with width suffixes', 'g\n  t table = """\nk uint16\nx float32 cm\n\n1 1.5\n2 .5\n"""', 'g.t.x', [1.5, 0.5], 'cm', (F, 32, None)),
    ('wide indentation', 'g\n        a int = 1\n        b int = 2', 'g.b', 2, None, (I, 32, False)), ('single blank indentation', 'g\n a int = 1\n  c int = 3', 'g.a.c', 3, None, (I, 32, False)),
]
REJECT = [('array with too few values', 'a int[3:] = [1,2]'), ('array with too many values', 'a int[:2] = [1,2,3]'), ('scalar node given an array', 'a int = [1,2]'),
          ('wrong exact size', 'a bool[4] = [true,false]'), ('matrix second dimension too big', 'a int[2,:2] = [[1,2,3],[4,5,6]]'), ('unknown type', 'a double = 1'),
          ('bad bool literal', 'a bool = yes'), ('bad int literal', 'a int = 1.5x'), ('name with blank inside', 'a b int = 1x y'), ('unterminated block', 'a str = """\nabc')]
FILE_SRC = '''
import tempfile, os
def run(v, O):
    # the same text loaded from a file, flush left and uniformly indented: paths do not depend on the indentation of the root level
    out = []
    d = tempfile.mkdtemp(prefix='c13_')
    try:
        for label, text, want in v.cases:
            for pad in ('', '  ', '      '):
                p = os.path.join(d, 'f.dip')
                with open(p, 'w') as fh:
                    fh.write('\\n'.join((pad + l if l.strip() else l) for l in text.split('\\n')) + '\\n')
                def go():
                    with DIP() as dip:
                        dip.add_file(p)
                        return dip.parse().data(Format.TUPLE)
                r = outcome(go)
                out.append((f'{label} (root indented by {len(pad)}): parameters', O.same(r, ('ok', want))))
        return out
    finally:
        import shutil
        shutil.rmtree(d, ignore_errors=True)
'''
FILES = [('groups and nodes', 'sim\n  n int = 1\nbox\n  size\n    x float = 2 m\nk int = 3', {'sim.n': 1, 'box.size.x': (2.0, 'm'), 'k': 3}),
         ('first line is a node', 'a int = 1\nb int = 2\ng\n  c int = 3', {'a': 1, 'b': 2, 'g.c': 3}),
         ('comment first', '# header\na int = 1\n\nb\n  c str = x', {'a': 1, 'b.c': 'x'})]
REJ_SRC = '''
def run(v, O):
    return [(f'rejected: {label}', O.raises(lambda t=t: dip_parse(t))) for label, t in v.cases]
'''


def gen_prog(rnd, nlines, maxdepth):
    """list of lines with intended tree: returns (prog, parent_index per line, level)"""
    prog, parents, levels = [], [], []
    stack = []     # indices of open named lines (ancestors of the next line)
    nv = [0]
    names_at = {}

    def value():
        nv[0] += 1
        return f'x{nv[0]}'
    nn = 0
    while len(prog) < nlines:
        r = rnd.random()
        if prog and r < 0.12:
            prog.append(('comment',)); parents.append(None); levels.append(None); continue
        if prog and r < 0.2:
            prog.append(('blank',)); parents.append(None); levels.append(None); continue
        # choose depth for the next named line: child of stack top, sibling, or de-indent by any number of levels
        depth = rnd.randint(0, min(len(stack), maxdepth))
        stack = stack[:depth]
        parent = stack[-1] if stack else None
        nn += 1
        kind = rnd.random()
        sibs = names_at.setdefault(parent, [])
        if kind < 0.3:
            it = ('group', f'g{nn}' if rnd.random() < 0.8 else f'g{nn}.sub')
        elif kind < 0.42 and sibs:
            it = ('mod', rnd.choice(sibs), value())
        else:
            name = f'n{nn}' if rnd.random() < 0.8 else f'p{nn}.q'
            if rnd.random() < 0.15:
                it = ('table', f't{nn}', value())
            else:
                it = ('def', name, value(), rnd.choice([0, 0, 0, 1, 2]))
                sibs.append(name)
        prog.append(it); parents.append(parent); levels.append(depth)
        if it[0] == 'table':
            pass        # table columns are leaves: nothing is written below a table
        elif it[0] != 'mod':
            stack.append(len(prog) - 1)
        else:
            # a modification re-opens the node of the same name: children written below it belong to that node
            stack.append(len(prog) - 1)
    return prog, parents, levels


def consistent_constraints(prog, parents, levels):
    """children of one parent share an indent greater than the parent's; roots share one indent"""
    pre = []
    first_child = {}
    for i, it in enumerate(prog):
        if it[0] in ('comment', 'blank'):
            pre.append(f'v.w{i} >= 0')
            continue
        p = parents[i]
        pre.append(f'v.w{i} >= 0')
        if p is not None:
            pre.append(f'v.w{i} > v.w{p}')
        if p in first_child:
            pre.append(f'v.w{i} == v.w{first_child[p]}')
        else:
            first_child[p] = i
    return pre


def scenarios(tier, seed):
    rnd = random.Random(seed)
    S = []
    ncons, nfree = (90, 40) if tier == 'quick' else (500, 160)
    for j in range(ncons):
        n = rnd.randint(2, 7 if tier == 'quick' else 9)
        prog, parents, levels = gen_prog(rnd, n, 4)
        if not any(it[0] in ('def', 'mod', 'table') for it in prog):
            continue
        inp = {f'w{i}': 'int' for i in range(len(prog))}
        inp.update({it[2]: 'real' for it in prog if it[0] in ('def', 'mod', 'table')})
        S.append(Scenario(f'tree/consistent/{j}', TREE_SRC, inp, consistent_constraints(prog, parents, levels), consts={'prog': prog}, preamble=PRE,
                          what=f'consistently indented program {prog}', samples=2))
    for j in range(nfree):
        n = rnd.randint(2, 5 if tier == 'quick' else 6)
        prog, parents, levels = gen_prog(rnd, n, 3)
        prog = [it for it in prog if it[0] not in ('mod', 'table')]      # in the free regime a modification may land under another parent and become an undefined node
        if not any(it[0] == 'def' for it in prog):
            continue
        inp = {f'w{i}': 'int' for i in range(len(prog))}
        inp.update({it[2]: 'real' for it in prog if it[0] == 'def'})
        S.append(Scenario(f'tree/free/{j}', TREE_SRC, inp, [f'v.w{i} >= 0' for i in range(len(prog))] + [f'v.w{i} <= 12' for i in range(len(prog))], consts={'prog': prog},
                          preamble=PRE, what=f'freely indented program {prog}', samples=2))
    k = 6
    for c in range(0, len(LITERALS), k):
        S.append(Scenario(f'literals/{c // k}', LIT_SRC, {}, consts={'cases': LITERALS[c:c + k]}, preamble=PRE, what='literal forms ' + ', '.join(x[0] for x in LITERALS[c:c + k]), samples=1))
    S.append(Scenario('files', FILE_SRC, {}, consts={'cases': FILES}, preamble=PRE, what='texts loaded with add_file, flush left and uniformly indented', samples=1))
    S.append(Scenario('rejected', REJ_SRC, {}, consts={'cases': REJECT}, preamble=PRE, what='texts that violate a declared shape/type', samples=1))
    S.append(Scenario('canary/parent', TREE_SRC, {'w0': 'int', 'w1': 'int', 'w2': 'int', 'x1': 'real', 'x2': 'real'}, ['v.w0 >= 0', 'v.w1 > v.w0', 'v.w2 == v.w1'],
                      consts={'prog': [('group', 'g'), ('def', 'a', 'x1', 0), ('def', 'b', 'x2', 0)]},
                      preamble=PRE.replace('if indents[pi] < indents[i]:', 'if indents[pi] <= indents[i]:'), canary=True))
    return S


NT = 16


def tasks(tier, seed):
    return [{'id': f'c13-{i:02d}', 'tier': tier, 'seed': seed, 'slice': [i, NT]} for i in range(NT)]


def run_task(task):
    S = scenarios(task['tier'], task['seed'])
    i, k = task['slice']
    mine = S[i::k]
    sym = [s for s in mine if s.inputs]
    conc = [s for s in mine if not s.inputs]      # literal forms have no solver variable: run them on the unpatched library (np.array(..., dtype=<stub>) would not cast)
    res = run_scenarios(sym, dipkit.dip_patches, timeout_ms=20000, seed=task['seed'], wall_s=900, max_paths=5000)
    import contextlib
    res2 = run_scenarios(conc, contextlib.nullcontext, timeout_ms=20000, seed=task['seed'], wall_s=900, max_paths=5000)
    for key, val in res2.items():
        if key == 'stats':
            for kk, vv in val.items():
                res['stats'][kk] = res['stats'].get(kk, 0) + vv
        elif isinstance(val, list):
            res[key] = res.get(key, []) + val
        else:
            res[key] = res.get(key, 0) + val
    return res
