"""C16 - parse() returns only environments that satisfy every declared constraint."""
import itertools
import random

from symx import stubs
from vf.scen import Scenario, run_scenarios
from harness import dipkit, unitkit

PROPERTY = 'C16'
ENCODED = ['scinumtools.dip.dip:DIP.parse', 'scinumtools.dip.nodes.node_select:SelectNode.set_option', 'scinumtools.dip.nodes.node_select:SelectNode.validate_options',
           'scinumtools.dip.nodes.node_option:OptionNode.parse', 'scinumtools.dip.nodes.node_condition:ConditionNode.parse', 'scinumtools.dip.nodes.node_format:FormatNode.parse',
           'scinumtools.dip.datatypes.type_number:NumberType._prepare', 'scinumtools.dip.datatypes.type_number:NumberType.__eq__', 'scinumtools.dip.datatypes.type_number:NumberType.__lt__',
           'scinumtools.dip.datatypes.type_number:NumberType.__le__', 'scinumtools.dip.solvers.logical_solver:LogicalSolver.solve', 'scinumtools.dip.solvers.logical_solver:LogicalSolver._eval_node',
           'scinumtools.dip.nodes.node_base:BaseNode.cast_value', 'scinumtools.dip.environment:Environment.request']
EXPLANATION = ("Final values, option values, bounds inside !condition expressions and array-dimension bounds are solver variables (sentinel numerals). The real parse() with its validation "
               "loop runs; np.isclose on proxies becomes the tolerance formula as a term. Per path: if parse() returned, z3 must prove the constraint holds in its tolerant reading; if it "
               "raised, z3 must prove the strict reading fails and the error is the constraint's own message. Strict/tolerant split: acceptance is demanded only where the strict "
               "predicate holds, rejection only where the tolerant one fails, so the documented 1e-6 tolerance band itself is never judged.")
ASSUMPTIONS = dipkit.DIP_STUB_TEXT + [
    "a division by a term that may be zero forks; on the zero side the library's own ZeroDivisionError propagates and is reported (no denominator is assumed away)",
    "name `int` in dip.nodes.parser is symx.Int so that the bounds of an array dimension [lo:hi] can be solver integers",
    "tolerant reading: |a-b| <= 1e-5*(1+|a|+|b|) (wider than the library's 1e-6|b|); strict reading: exact comparison after unit conversion",
    "format expressions and string options are concrete (regex engine is C-level)",
]
OUTSIDE = ['values inside the tolerance band (neither demanded accepted nor rejected)', 'conditions on array-valued nodes', 'option lists given by reference']
BOUNDS = {'quick': 'float/int/str nodes x {per-line options, !options lists} x {same unit, other unit} x 0..2 modifications; conditions with < <= > >= == != and && of two; conditions mixing && || and ==; conditions on another node that is modified afterwards (one / two parses); dimension bounds 1-D and 2-D; 75 concrete string / option / format / combination cases (tiny magnitudes, empty text, custom units, imported copies)',
          'thorough': 'same, more unit pairs and 3-option sets'}
EXHAUSTIVE = {'quick': True, 'thorough': True}
PRE = dipkit.DIP_SRC + unitkit.REF_SRC + '''
def tol_eq(O, a, b):
    return O.le(O.abs(a - b), 1e-5 * (1 + O.abs(a) + O.abs(b)))
def verdict(O, out, tag, r, strict, tolerant, message):
    """r: outcome of parse; strict/tolerant: claims"""
    if r[0] == 'ok':
        out.append((f'{tag}: accepted, so the constraint holds', tolerant))
    else:
        out.append((f'{tag}: rejected, so the constraint fails', O.not_(strict)))
        out.append((f'{tag}: rejected with the constraint message', O.same(any(m in r[1] for m in message), True)))
'''
OPT_SRC = '''
def run(v, O):
    fu = ref_units(v.unit)[0] if v.unit else 1.0
    if getattr(v, 'same', False):
        opts = [v.o0 for _ in v.ounits]          # the same number listed under several units
    else:
        opts = [getattr(v, f'o{i}') for i in range(len(v.ounits))]
    lines = [f'w {v.dtype} = {O.lit(v.v0)}' + (f' {v.unit}' if v.unit else '')]
    if v.listform:
        groups = {}
        for o, u in zip(opts, v.ounits): groups.setdefault(u, []).append(o)
        for u, os_ in groups.items():
            lines.append('  !options [' + ','.join(O.lit(o) for o in os_) + ']' + (f' {u}' if u else ''))
    else:
        for o, u in zip(opts, v.ounits):
            lines.append(f'  = {O.lit(o)}' + (f' {u}' if u else ''))
    final = v.v0
    for i in range(v.nmods):
        final = getattr(v, f'm{i}')
        lines.append(f'w = {O.lit(final)}' + (f' {v.unit}' if v.unit and i % 2 == 0 else ''))
    r = outcome(lambda: dip_parse('\\n'.join(lines)))
    # option values in the unit of the node
    conv = [o * ((ref_units(u)[0] if u else fu) / fu) for o, u in zip(opts, v.ounits)]
    out = []
    verdict(O, out, 'options', r, O.or_(*[O.eq(final, c) for c in conv]), O.or_(*[tol_eq(O, final, c) for c in conv]), ["doesn't match with any option"])
    if r[0] == 'ok':
        got = r[1].data(Format.VALUE)['w']
        out.append(('returned value is the final value', O.eq(got, final)))
    return out
'''
STROPT_SRC = '''
def outcome(fn):          # the whole message is kept (values with many digits make it long)
    try:
        return ('ok', fn())
    except Exception as e:
        return ('raised', type(e).__name__ + ': ' + str(e)[:400])
def run(v, O):
    out = []
    for label, text, ok in v.cases:
        if isinstance(text, tuple):      # two parses: the second text continues on top of the first environment
            r = outcome(lambda: dip_parse(text[1], dip_parse(text[0])))
        else:
            r = outcome(lambda: dip_parse(text))
        out.append((f'{label}: ' + ('accepted' if ok else 'rejected'), O.same(r[0] == 'ok', ok)))
        if not ok and r[0] != 'ok':
            out.append((f'{label}: constraint message', O.same(any(m in r[1] for m in v.messages), True)))
    return out
'''
COND_SRC = '''
def run(v, O):
    fu = ref_units(v.unit)[0] if v.unit else 1.0
    fb = ref_units(v.bunit)[0] if v.bunit else fu
    b = v.b * (fb / fu)          # bound in the unit of the node
    bt = f'{O.lit(v.b)}' + (f' {v.bunit}' if v.bunit else (f' {v.unit}' if v.unit else ''))
    expr = {'lt': '{?} < B', 'le': '{?} <= B', 'gt': '{?} > B', 'ge': '{?} >= B', 'eq': '{?} == B', 'ne': '{?} != B',
            'range': 'L < {?} && {?} < B', 'or': '{?} < L || {?} > B', 'rev': 'B > {?}',
            'orand': '{?} < B || {?} > L && {?} < L',         # && binds tighter than ||: the second part can never hold
            'andor': '{?} > L && {?} < L || {?} < B',
            'andeq': '{?} > L && {?} == B', 'eqand': '{?} == B && {?} > L', 'oreq': '{?} < L || {?} == B', 'andne': '{?} > L && {?} != B'}[v.op]
    lo = v.lo if hasattr(v, 'lo') else None
    if getattr(v, 'refbound', False):
        expr = expr.replace('B', '{?lim}')
    expr = expr.replace('B', bt)
    if lo is not None:
        expr = expr.replace('L', f'{O.lit(lo)}' + (f' {v.unit}' if v.unit else ''))
    lines = [f'w {v.dtype} = {O.lit(v.v0)}' + (f' {v.unit}' if v.unit else ''), f'  !condition ("{expr}")']
    if getattr(v, 'refbound', False):
        lines = [f'lim {v.dtype} = {bt}'] + lines
    final = v.v0
    for i in range(v.nmods):
        if getattr(v, 'modbound', False):
            # the node the condition refers to is modified, the constrained node itself stays untouched
            b = getattr(v, f'm{i}') * (fb / fu)
            lines.append(f'lim = {O.lit(getattr(v, f"m{i}"))}')
            continue
        final = getattr(v, f'm{i}')
        lines.append(f'w = {O.lit(final)}')
    if getattr(v, 'twostep', False):
        # the constrained definition is parsed first; the modification arrives in a second parse on top of that environment
        ndef = len(lines) - v.nmods
        r1 = outcome(lambda: dip_parse('\\n'.join(lines[:ndef])))
        if r1[0] != 'ok':
            return [('no claim: the definition itself is rejected', True)]
        r = outcome(lambda: dip_parse('\\n'.join(lines[ndef:]), r1[1]))
    else:
        r = outcome(lambda: dip_parse('\\n'.join(lines)))
    x = final
    def st(kind, a, c):      # definitely true: beyond the tolerance band
        far = O.not_(tol_eq(O, a, c))
        return {'lt': O.and_(O.lt(a, c), far), 'le': O.le(a, c), 'gt': O.and_(O.gt(a, c), far), 'ge': O.ge(a, c), 'eq': O.eq(a, c), 'ne': far}[kind]
    def to(kind, a, c):      # possibly true: inside the band counts
        near = tol_eq(O, a, c)
        return {'lt': O.or_(O.lt(a, c), near), 'le': O.or_(O.lt(a, c), near), 'gt': O.or_(O.gt(a, c), near), 'ge': O.or_(O.gt(a, c), near), 'eq': near, 'ne': True}[kind]
    if v.op == 'range':
        strict = O.and_(st('lt', lo, x), st('lt', x, b)); tolerant = O.and_(to('lt', lo, x), to('lt', x, b))
    elif v.op == 'or':
        strict = O.or_(st('lt', x, lo), st('gt', x, b)); tolerant = O.or_(to('lt', x, lo), to('gt', x, b))
    elif v.op in ('orand', 'andor'):
        strict, tolerant = st('lt', x, b), O.or_(to('lt', x, b), O.and_(to('gt', x, lo), to('lt', x, lo)))
    elif v.op in ('andeq', 'eqand'):
        strict = O.and_(st('gt', x, lo), st('eq', x, b)); tolerant = O.and_(to('gt', x, lo), to('eq', x, b))
    elif v.op == 'andne':
        strict = O.and_(st('gt', x, lo), st('ne', x, b)); tolerant = O.and_(to('gt', x, lo), to('ne', x, b))
    elif v.op == 'oreq':
        strict = O.or_(st('lt', x, lo), st('eq', x, b)); tolerant = O.or_(to('lt', x, lo), to('eq', x, b))
    elif v.op == 'rev':
        strict, tolerant = st('gt', b, x), to('gt', b, x)
    else:
        strict, tolerant = st(v.op, x, b), to(v.op, x, b)
    out = []
    verdict(O, out, 'condition', r, strict, tolerant, ['does not fullfil a condition'])
    return out
'''
DIM_SRC = '''
def run(v, O):
    vals = '[' + ','.join(str(i) for i in range(v.k))+ ']'
    if v.k2:
        vals = '[' + ','.join('[' + ','.join(str(j) for j in range(v.k2)) + ']' for i in range(v.k)) + ']'
    spec = {'both': f'{O.lit(v.lo)}:{O.lit(v.hi)}', 'min': f'{O.lit(v.lo)}:', 'max': f':{O.lit(v.hi)}', 'exact': f'{O.lit(v.lo)}', 'any': ':'}[v.form]
    if v.k2:
        spec = spec + ',' + f'{O.lit(v.lo2)}:{O.lit(v.hi2)}'
    text = f'a int[{spec}] = {vals}'
    r = outcome(lambda: dip_parse(text))
    ok1 = {'both': O.and_(O.le(v.lo, v.k), O.le(v.k, v.hi)), 'min': O.le(v.lo, v.k), 'max': O.le(v.k, v.hi), 'exact': O.eq(v.lo, v.k), 'any': True}[v.form]
    ok = O.and_(ok1, O.le(v.lo2, v.k2), O.le(v.k2, v.hi2)) if v.k2 else ok1
    out = []
    verdict(O, out, 'dimension bounds', r, ok, ok, ['invalid dimension'])
    return out
'''


def scenarios(tier, seed):
    rnd = random.Random(seed)
    S = []
    unitsets = [('m', ['m', 'cm', None]), ('J', ['erg', 'J', 'kJ']), (None, [None, None, None]), ('km/h', ['m/s', 'km/h', None])]
    n = 0
    for unit, ous in unitsets:
        for nopt in (1, 2, 3):
            for listform in (False, True):
                for nmods in (0, 1, 2):
                    for dtype in ('float', 'int'):
                        if dtype == 'int' and unit not in (None, 'm'):
                            continue
                        if tier == 'quick' and (n % 3 == 1):
                            n += 1
                            continue
                        n += 1
                        kind = 'real' if dtype == 'float' else 'int'
                        inp = {'v0': kind}
                        inp.update({f'o{i}': kind for i in range(nopt)})
                        inp.update({f'm{i}': kind for i in range(nmods)})
                        S.append(Scenario(f'options/{dtype}/{unit}/{nopt}/{"list" if listform else "lines"}/{nmods}', OPT_SRC, inp,
                                          consts={'unit': unit, 'ounits': ous[:nopt], 'listform': listform, 'nmods': nmods, 'dtype': dtype}, preamble=PRE,
                                          what=f'{dtype} node in {unit} with {nopt} options in {ous[:nopt]} ({"!options" if listform else "per line"}), {nmods} modifications', samples=2))
    for unit, ous in (('m', ['cm', 'm']), ('m', ['m', 'cm', 'km']), ('J', ['kJ', 'J'])):
        for listform in (False, True):
            for nmods in (0, 1):
                inp = {'v0': 'real', 'o0': 'real'}
                inp.update({f'm{i}': 'real' for i in range(nmods)})
                S.append(Scenario(f'options-same-number/{unit}/{"-".join(ous)}/{"list" if listform else "lines"}/{nmods}', OPT_SRC, inp,
                                  consts={'unit': unit, 'ounits': ous, 'listform': listform, 'nmods': nmods, 'dtype': 'float', 'same': True}, preamble=PRE,
                                  what=f'float node in {unit} whose options repeat one number under the units {ous}', samples=2))
    for unit, bunit in (('m', None), ('m', 'cm'), ('J', 'erg'), (None, None)):
        for op in ('lt', 'le', 'gt', 'ge', 'eq', 'ne', 'range', 'or', 'rev', 'orand', 'andor', 'andeq', 'eqand', 'oreq', 'andne'):
            for nmods in (0, 1):
                for dtype in ('float', 'int'):
                    if dtype == 'int' and unit is not None:
                        continue
                    kind = 'real' if dtype == 'float' else 'int'
                    inp = {'v0': kind, 'b': kind}
                    if op in ('range', 'or', 'orand', 'andor', 'andeq', 'eqand', 'oreq', 'andne'):
                        inp['lo'] = kind
                    inp.update({f'm{i}': kind for i in range(nmods)})
                    S.append(Scenario(f'condition/{dtype}/{unit}/{bunit}/{op}/{nmods}', COND_SRC, inp, consts={'unit': unit, 'bunit': bunit, 'op': op, 'nmods': nmods, 'dtype': dtype},
                                      preamble=PRE, what=f'{dtype} node in {unit} with condition {op} (bound in {bunit or unit})', samples=2))
    for unit, bunit in (('m', None), ('m', 'cm'), (None, None)):
        for op in ('lt', 'ge', 'range', 'ne'):
            dtype = 'float'
            inp = {'v0': 'real', 'b': 'real', 'm0': 'real'}
            if op == 'range':
                inp['lo'] = 'real'
            S.append(Scenario(f'condition-twostep/{unit}/{bunit}/{op}', COND_SRC, inp, consts={'unit': unit, 'bunit': bunit, 'op': op, 'nmods': 1, 'dtype': dtype, 'twostep': True},
                              preamble=PRE, what=f'float node in {unit} with condition {op}, modified in a second parse on top of the first environment', samples=2))
    for unit, bunit in (('m', 'cm'), ('J', 'erg'), ('m', None)):
        for op in ('lt', 'ge', 'eq', 'gt'):
            S.append(Scenario(f'condition-ref/{unit}/{bunit}/{op}', COND_SRC, {'v0': 'real', 'b': 'real'}, consts={'unit': unit, 'bunit': bunit, 'op': op, 'nmods': 0, 'dtype': 'float', 'refbound': True},
                              preamble=PRE, what=f'condition {op} against another node stored in {bunit or unit}', samples=2))
    for unit, bunit in (('m', 'cm'), ('m', None), ('s', 'ms')):
        for op in ('lt', 'ge', 'gt'):
            for twostep in (False, True):
                S.append(Scenario(f'condition-ref-modified/{unit}/{bunit}/{op}/{"two-parses" if twostep else "one-parse"}', COND_SRC, {'v0': 'real', 'b': 'real', 'm0': 'real'},
                                  consts={'unit': unit, 'bunit': bunit, 'op': op, 'nmods': 1, 'dtype': 'float', 'refbound': True, 'modbound': True, 'twostep': twostep},
                                  preamble=PRE, what=f'condition {op} against another node that is modified afterwards ({"in a second parse on top of the first environment" if twostep else "in the same text"})', samples=2))
    for form in ('both', 'min', 'max', 'exact', 'any'):
        for k in (1, 2, 4):
            S.append(Scenario(f'dimension/{form}/{k}', DIM_SRC, {'lo': 'int', 'hi': 'int'}, ['v.lo >= 0', 'v.hi >= 0', 'v.lo <= 9', 'v.hi <= 9'], consts={'form': form, 'k': k, 'k2': 0, 'lo2': 0, 'hi2': 0},
                              preamble=PRE, what=f'array of {k} values with dimension spec {form}', samples=2))
    for k, k2 in ((2, 3), (1, 2), (3, 1)):
        S.append(Scenario(f'dimension2d/{k}x{k2}', DIM_SRC, {'lo': 'int', 'hi': 'int', 'lo2': 'int', 'hi2': 'int'},
                          ['v.lo >= 0', 'v.hi >= 0', 'v.lo <= 9', 'v.hi <= 9', 'v.lo2 >= 0', 'v.hi2 >= 0', 'v.lo2 <= 9', 'v.hi2 <= 9'], consts={'form': 'both', 'k': k, 'k2': k2},
                          preamble=PRE, what=f'{k}x{k2} array against 2-D bounds', samples=2))
    strcases = [('str in per-line options', "a str = dog\n  = cat\n  = dog", True), ('str not in per-line options', "a str = cow\n  = cat\n  = dog", False),
                ('str in !options', 'a str = "dog"\n  !options ["cat","dog","horse"]', True), ('str not in !options', 'a str = "cow"\n  !options ["cat","dog","horse"]', False),
                ('str option after modification', "a str = dog\n  = cat\n  = dog\na = cat", True), ('str modified out of options', "a str = dog\n  = cat\n  = dog\na = cow", False),
                ('format matches', "a str = 'Ferdinant'\n  !format '^[a-zA-Z]+$'", True), ('format fails', "a str = 'Ferdinant2'\n  !format '^[a-zA-Z]+$'", False),
                ('format fails after modification', "a str = 'abc'\n  !format '^[a-z]+$'\na = 'ABC'", False), ('format ok after modification', "a str = 'abc'\n  !format '^[a-z]+$'\na = 'xyz'", True),
                ('empty text against a format that needs a letter', 'a str = "abc"\n  !format "^[a-z]+$"\na = ""', False), ('empty text against a format that admits it', 'a str = "abc"\n  !format "^[a-z]*$"\na = ""', True),
                ('empty single-quoted text against a fixed-length format', "a str = 'abc'\n  !format '^[a-z]{3}$'\na = ''", False), ('empty text against a non-empty format, two parses', ('a str = "abc"\n  !format "^.+$"', 'a = ""'), False),
                ('empty text not among the options', 'a str = "cat"\n  !options ["cat","dog"]\na = ""', False),
                ('options in a much smaller unit: value between two of them', 'e float = 1 J\n  = 1 J\n  = 2 eV\n  = 3 eV\ne = 2.5 eV', False), ('options in a much smaller unit: value equal to one', 'e float = 1 J\n  = 1 J\n  = 2 eV\n  = 3 eV\ne = 3 eV', True),
                ('int node in m, option 4 nm, value 7 nm', 'n int = 4 m\n  = 4 m\n  = 4 nm\nn = 7 nm', False), ('!options list in nm on a node in m: no match', 'w float = 2 nm\n  !options [2,3] nm\nw = 2.5 nm', False),
                ('!options list in nm on a node in m: match', 'w float = 2e-9 m\n  !options [2,3] nm\nw = 3 nm', True), ('tiny options in the node unit: no match', 'w float = 2e-9 m\n  = 2e-9 m\n  = 3e-9 m\nw = 7e-9 m', False),
                ('condition with an equality on tiny numbers fails', 'w float = 2e-9 m\n  !condition ("{?} == 3e-9 m")', False), ('condition with an equality on tiny numbers holds', 'w float = 3 nm\n  !condition ("{?} == 3e-9 m")', True),
                ('format digits', "a str = '2023-01-02'\n  !format '^[0-9]{4}-[0-9]{2}-[0-9]{2}$'", True), ('format digits fail', "a str = '2023-1-02'\n  !format '^[0-9]{4}-[0-9]{2}-[0-9]{2}$'", False),
                ('value of lower rank than declared', 'c int[2,3:] = [7,8]', False), ('scalar given to an array node', 'c int[2] = 5', False),
                ('2-D node modified with a 1-D list', 'c int[2,2] = [[1,2],[3,4]]\nc = [5,6]', False),
                ('multi-line value against an end-anchored format', 'a str = """\nabc\n123\n"""\n  !format "^[a-z]+$"', False),
                ('multi-line value, second line breaks the format', 'a str = "abc"\n  !format "^[a-z]+$"\na = """\nabc\nDROP TABLE\n"""', False),
                ('int node with unit, option in another prefix', 'w int = 2 m\n  = 200 cm\n  = 300 cm', True), ('int node with unit, value equals only the bare number of an option', 'w int = 200 m\n  = 200 cm\n  = 300 cm', False),
                ('int !options list in another unit', 'w int = 3 m\n  !options [200,300] cm', True), ('int !options list in another unit, no match', 'w int = 300 m\n  !options [200,300] cm', False),
                ('options on a bool refused', "a bool = true\n  = true", False), ('format on an int refused', "a int = 3\n  !format '3'", False),
                ('two constraints both hold', "a float = 2 m\n  = 2 m\n  = 3 m\n  !condition ('{?} < 2.5 m')", True), ('two constraints, condition fails', "a float = 3 m\n  = 2 m\n  = 3 m\n  !condition ('{?} < 2.5 m')", False),
                ('two constraints, option fails', "a float = 1 m\n  = 2 m\n  = 3 m\n  !condition ('{?} < 2.5 m')", False), ('declared node never set', "a float m\n  = 2 m", False),
                ('option added to an imported copy does not reach the original', 'size float = 2 cm\n  = 2 cm\n  = 3 cm\nbox {?size}\n  = 5 cm\nsize = 5 cm', False),
                ('option added to an imported copy holds for the copy', 'size float = 2 cm\n  = 2 cm\n  = 3 cm\nbox {?size}\n  = 5 cm\nbox.size = 5 cm', True),
                ('imported copy keeps the options of the original', 'size float = 2 cm\n  = 2 cm\n  = 3 cm\nbox {?size}\nbox.size = 5 cm', False),
                ('imported copy keeps the condition of the original', 'size float = 2 cm\n  = 2 cm\n  = 3 cm\n  !condition ("{?} < 2.5 cm")\nbox {?size}\nbox.size = 3 cm', False),
                ('two imports of one node do not share added options', 'size float = 2 cm\n  = 2 cm\na {?size}\n  = 7 cm\nb {?size}\nb.size = 7 cm', False),
                ('int node: matching an option in another prefix keeps the value and the condition in the node unit', 'n int = 5 m\n  = 200 cm\n  = 5 m\n  !condition ("{?} < 100")\nn = 2 m', True),
                ('int node: condition in the node unit fails', 'n int = 5 m\n  = 200 cm\n  = 5 m\n  !condition ("{?} > 100")\nn = 2 m', False),
                ('declared bool never set', 'flag bool', False), ('declared bool set only inside an unselected clause', 'a int = 1\nflag bool\n@case false\n  flag = true\n@end', False),
                ('declared bool set inside a selected clause', 'a int = 1\nflag bool\n@case true\n  flag = true\n@end', True), ('declared int set only inside an unselected clause', 'k int\n@case false\n  k = 1\n@end', False),
                ('options in a custom unit, value in the node unit matches', '$unit len = 2 m\nw float = 4 m\n  = 2 [len]\n  = 3 [len]', True),
                ('options in a custom unit, value matches none', '$unit len = 2 m\nw float = 5 m\n  = 2 [len]\n  = 3 [len]', False),
                ('!options list in a custom unit', '$unit len = 2 m\nw float = 6 m\n  !options [2,3] [len]', True), ('!options list in a custom unit, no match', '$unit len = 2 m\nw float = 7 m\n  !options [2,3] [len]', False),
                ('node in a custom unit, option in a standard unit', '$unit len = 2 m\nw float = 2 [len]\n  = 4 m\n  = 1 m', True),
                ('bool condition holds', "a float = 1\n  !condition ('{?} > 0 && {?} < 2')", True), ('constraint checked on nested node', "g\n  a int = 5\n    = 4\n    = 6", False)]
    S.append(Scenario('strings-and-combinations', STROPT_SRC, {}, consts={'cases': strcases, 'messages': ["doesn't match with any option", 'does not match the format', 'does not fullfil a condition',
                                                                                                       'does not support options', 'Format can be set only', 'Node value must be defined', 'invalid dimension', 'index out of range', 'Array value set to scalar', 'Could not convert', 'inhomogeneous']},
                      preamble=PRE, what='string options, formats and combinations (concrete)', samples=1))
    S.append(Scenario('canary/options', OPT_SRC.replace("O.or_(*[tol_eq(O, final, c) for c in conv])", "O.or_(*[tol_eq(O, final, c + 1) for c in conv])"), {'v0': 'real', 'o0': 'real'},
                      consts={'unit': 'm', 'ounits': ['m'], 'listform': False, 'nmods': 0, 'dtype': 'float'}, preamble=PRE, canary=True))
    return S


NT = 16


def tasks(tier, seed):
    return [{'id': f'c16-{i:02d}', 'tier': tier, 'seed': seed, 'slice': [i, NT]} for i in range(NT)]


import contextlib


@contextlib.contextmanager
def patches():
    with dipkit.dip_patches():
        with stubs.patched([('scinumtools.dip.nodes.parser', 'int', stubs.Int)]):
            yield


def run_task(task):
    S = scenarios(task['tier'], task['seed'])
    i, k = task['slice']
    mine = S[i::k]
    res = run_scenarios([s for s in mine if s.inputs], patches, timeout_ms=20000, seed=task['seed'], wall_s=900, max_paths=5000, div_zero='fork')
    res2 = run_scenarios([s for s in mine if not s.inputs], contextlib.nullcontext, timeout_ms=20000, seed=task['seed'])
    for key, val in res2.items():
        if key == 'stats':
            for kk, vv in val.items():
                res['stats'][kk] = res['stats'].get(kk, 0) + vv
        elif isinstance(val, list):
            res[key] = res.get(key, []) + val
        else:
            res[key] = res.get(key, 0) + val
    return res
