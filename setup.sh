#!/bin/sh
# Offline setup: overlay venv on top of /venv (which holds the repository's own
# dependencies and an editable install of /repo/src), plus z3 and CrossHair from
# the local wheelhouse.  Idempotent.
set -e
cd "$(dirname "$0")"
V=.venv
if [ ! -x "$V/bin/python" ] || ! "$V/bin/python" -c "import z3, crosshair, scinumtools" >/dev/null 2>&1; then
    rm -rf "$V"
    /venv/bin/python -m venv "$V"
    SP=$("$V/bin/python" -c "import sysconfig; print(sysconfig.get_paths()['purelib'])")
    echo "import site; site.addsitedir('/venv/lib/python3.12/site-packages')" > "$SP/_base.pth"
    PIP_NO_INDEX=1 "$V/bin/python" -m pip install -q --no-index --find-links /opt/veriftools/wheels z3-solver crosshair-tool
fi
"$V/bin/python" -c "import z3, crosshair, scinumtools, numpy; print('setup ok: z3', z3.get_version_string(), 'scinumtools at', scinumtools.__file__)"
mkdir -p evidence
