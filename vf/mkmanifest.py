"""Regenerates /verif/MANIFEST.json from the table below (run after adding a check)."""
import json
import os

ROOT = os.path.dirname(os.path.dirname(os.path.abspath(__file__)))

LEVEL_TEXT = ("Bounded symbolic execution of the real Python code: inputs are z3 variables carried by proxy objects through the unmodified "
              "library, every branch on a symbolic value is decided by the solver and forked, and the property is a z3 query per path "
              "(unsat = holds for every value inside the stated bounds; sat = concrete counterexample, replayed against the unpatched library "
              "in a fresh interpreter before it is reported). Shapes (skeletons, unit pairs, operator lists) are enumerated up to the stated bound. "
              "This is a bounded claim, not a proof.")
NOTE = ("Trusted: z3, CPython, numpy object-array dispatch, the symx proxy engine (validated per scenario by running the same scenario source on "
        "concrete values through the unpatched library) and the namespace stubs listed in each evidence file. Reals stand for binary64.")

CHECKS = {
    # id: (technique, design_ref)
}

NOT_APPLICABLE = {
    'C19': "oracle is the behaviour of nine external readers/compilers on generated text and str(float) is C-level: nothing a solver can encode within reach (DESIGN.md C19)",
}


def load_checks():
    import importlib, sys
    sys.path.insert(0, ROOT)
    out = {}
    for n in range(1, 21):
        pid = f"C{n:02d}"
        p = os.path.join(ROOT, 'harness', f"{pid.lower()}.py")
        if os.path.exists(p):
            out[pid] = p
    return out


def main():
    built = load_checks()
    import importlib, sys
    checks = []
    na = []
    for n in range(1, 21):
        pid = f"C{n:02d}"
        if pid in built and pid not in NOT_APPLICABLE:
            mod = importlib.import_module(f"harness.{pid.lower()}")
            checks.append({
                'property_id': pid,
                'quick_cmd': f"./check {pid} --tier quick",
                'thorough_cmd': f"./check {pid} --tier thorough",
                'evidence_file': f"/verif/evidence/{pid}.json",
                'replay_cmd_template': f"./check {pid} --replay {{path}}",
                'engine': getattr(mod, 'ENGINE', 'symx'),
                'level_claimed': {'category': 'other', 'text': LEVEL_TEXT + ' ' + getattr(mod, 'EXPLANATION', ''), 'design_ref': f"DESIGN.md section 2, {pid}"},
                'level_note': NOTE,
                'technique': getattr(mod, 'TECHNIQUE', 'solver-based bounded symbolic execution of the real code (z3 term proxies, fork on branch, per-path SMT query)'),
            })
        else:
            na.append({'property_id': pid, 'reason': NOT_APPLICABLE.get(pid, 'check not built yet in this round (no claim made)')})
    man = {
        'version': 1,
        'setup_cmd': './setup.sh',
        'hooks': {
            'guard': 'SCINUMTOOLS_VERIF',
            'enable': 'no source hooks are used: all instrumentation is harness-side namespace stubbing (listed per evidence file)',
            'baseline_off_cmd': 'cd /repo && /venv/bin/python -m pytest -ra -q -p no:cacheprovider --timeout=900 --continue-on-collection-errors',
            'source_commits': [],
            'add_only': True,
        },
        'engines': [
            {'name': 'symx', 'path': '/verif/symx', 'serves_properties': [c['property_id'] for c in checks if c['engine'] != 'crosshair'],
             'kind_free_text': 'z3 term-proxy symbolic executor for Python written for this task (fork on __bool__ by re-execution, numpy interception, positional symbolic strings)'},
            {'name': 'crosshair', 'path': '/verif/harness_xh', 'serves_properties': [c['property_id'] for c in checks if 'crosshair' in c['engine']],
             'kind_free_text': 'CrossHair 0.0.110 contracts over the real classes (unbounded ints, containers)'},
        ],
        'checks': checks,
        'not_applicable': na,
        'notes': 'exit 0 held within bounds; exit 1 VIOLATION (replayed); exit 3 harness error / inconclusive. known_findings.json lists recorded findings and fixed: entries.',
    }
    with open(os.path.join(ROOT, 'MANIFEST.json'), 'w') as f:
        json.dump(man, f, indent=1)
    print('checks:', [c['property_id'] for c in checks], 'not applicable:', [x['property_id'] for x in na])


if __name__ == '__main__':
    main()
