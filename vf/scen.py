"""Scenario kit: one definition of a scenario serves three runs.

A scenario is python source defining ``run(v, O)``: it drives the real library
with the inputs in namespace ``v`` and returns a list of ``(label, claim)``.
Claims are built through the ops object ``O`` so that the very same source

* runs on symx proxies (``SymOps``): claims become z3 formulas which the solver
  must prove under every path condition;
* runs on plain floats in-process (``ConcreteOps``) for translator validation:
  a claim that the solver proved must also hold on concrete samples;
* is pasted into a stand-alone replay script (fresh interpreter, unpatched
  library, no symx) together with the counterexample values.
"""
import fractions
import random
import textwrap
import time

import z3

from symx import core, axioms
from symx.core import Engine, SymReal, SymInt, SymBool

# ---------------------------------------------------------------------------
# concrete ops: this source is exec'd here AND pasted into replay scripts
# ---------------------------------------------------------------------------
CONCRETE_OPS_SRC = r'''
import math
class V:
    """namespace of scenario inputs"""
    def __init__(self, **kw): self.__dict__.update(kw)
class ConcreteOps:
    symbolic = False
    RTOL = 1e-9
    def num(self, x):
        if hasattr(x, 'item'): x = x.item()
        return float(x)
    def eq(self, a, b, tol=None):
        if a is None or b is None: return a is None and b is None
        a, b = self.num(a), self.num(b)
        if not math.isfinite(a) and not math.isfinite(b): return True   # domain errors on both sides (log/sqrt of a negative, 0 ** negative: nan here, inf in numpy)
        if a == b: return True                     # covers equal infinities
        tol = self.RTOL if tol is None else tol
        return abs(a - b) <= tol * max(1.0, abs(a), abs(b))
    def ge(self, a, b):
        a, b = self.num(a), self.num(b)
        return a >= b - self.RTOL * max(1.0, abs(a), abs(b))
    def close(self, a, b, tol=1e-9):
        a, b = self.num(a), self.num(b)
        return abs(a - b) <= 10 * tol * (1 + abs(b))
    def near(self, a, b, tol=1e-9, scale=None):
        a, b = self.num(a), self.num(b)
        return abs(a - b) <= 10 * tol * (1 + (abs(b) if scale is None else abs(self.num(scale))))
    def le(self, a, b): return self.ge(b, a)
    def gt(self, a, b): return self.num(a) > self.num(b)
    def abs(self, a): return abs(a)
    def is_none(self, a): return a is None
    def not_none(self, a): return a is not None
    def true(self, c): return bool(c)
    def same(self, a, b): return a == b
    def text(self, parts): return ''.join(chr(p) if isinstance(p, int) else p for p in parts)   # str pieces and character codes
    def isdigit(self, c): return len(c) == 1 and c in '0123456789'
    def nonfinite_seen(self, reset=False): return False
    def digit(self, c): return int(c)
    def implies(self, p, q): return (not p) or q
    def and_(self, *cs): return all(bool(c) for c in cs)
    def or_(self, *cs): return any(bool(c) for c in cs)
    def not_(self, c): return not c
    def raises(self, fn):
        try: fn()
        except Exception: return True
        return False
    def log10(self, x):
        import numpy
        with numpy.errstate(all='ignore'): return float(numpy.log10(float(x)))
    def ln(self, x):
        import numpy
        with numpy.errstate(all='ignore'): return float(numpy.log(float(x)))
    def exp(self, x): return math.exp(x)
    def pow(self, b, e):
        try: return b ** e
        except (ZeroDivisionError, OverflowError): return float('nan')
    def sin(self, x):
        import numpy
        return float(numpy.sin(float(x)))
    def cos(self, x):
        import numpy
        return float(numpy.cos(float(x)))
    def tan(self, x):
        import numpy
        return float(numpy.tan(float(x)))
    def sqrt(self, x):
        import numpy
        with numpy.errstate(all='ignore'): return float(numpy.sqrt(float(x)))
    def ite(self, c, a, b): return a if c else b
    def truth(self, x): return bool(x)
    def lt(self, a, b): return self.num(a) < self.num(b)
    def dec(self, x):
        import decimal
        return decimal.Decimal(repr(float(x)))
    def arr(self, items):
        import numpy
        return numpy.array([float(x) for x in items])
    def lit(self, x):
        if float(x) == int(x): return str(int(x))
        r = repr(float(x))
        if 'e' in r:
            import decimal
            r = format(decimal.Decimal(r), 'f')
        return r
    def veq(self, a, b):
        isb = lambda x: type(x).__name__ in ('bool', 'bool_')
        if isb(a) != isb(b): return False
        return bool(a) == bool(b) if isb(a) else self.eq(a, b)
'''
_ns = {}
exec(CONCRETE_OPS_SRC, _ns)
V = _ns['V']
ConcreteOps = _ns['ConcreteOps']


class Claim:
    """z3 Bool plus an optional 'robust' negation used to pick replayable models."""

    def __init__(self, t, robust_neg=None, parts=None, nonlinear=False):
        self.t = t
        self.robust_neg = robust_neg
        self.parts = parts          # optional list of z3 Bools whose conjunction is t (proved one by one)
        self.nonlinear = nonlinear


def _abs(t):
    return z3.If(t >= 0, t, -t)


class SymOps:
    symbolic = True

    def _l(self, x):
        return core.lift(x)

    def eq(self, a, b, tol=None):
        if a is None or b is None:
            return a is None and b is None
        at, bt = self._l(a), self._l(b)
        if tol is None:
            margin = z3.RealVal('1/1000') * (1 + _abs(bt))
            return Claim(at == bt, _abs(at - bt) > margin)
        eps = z3.RealVal(repr(tol)) * (1 + _abs(bt))
        return Claim(_abs(at - bt) <= eps, _abs(at - bt) > 1000 * eps)

    def ge(self, a, b):
        at, bt = self._l(a), self._l(b)
        return Claim(at >= bt, bt - at > z3.RealVal('1/1000') * (1 + _abs(bt)))

    def near(self, a, b, tol=1e-9, scale=None):
        """(a-b)^2 <= tol^2*(1+s^2) with s = b, or an explicit magnitude scale (sum of the absolute additive terms: robust against cancellation): a relative tolerance without absolute values, one polynomial query for nlsat (any sign of b)"""
        at, bt = self._l(a), self._l(b)
        d = at - bt
        st = bt if scale is None else self._l(scale)
        t2 = z3.RealVal(repr(tol)) * z3.RealVal(repr(tol))
        return Claim(d * d <= t2 * (1 + st * st), d * d > 1000000 * t2 * (1 + st * st), nonlinear=True)

    def close(self, a, b, tol=1e-9):
        """|a-b| <= tol*(1+b) for a reference b known to be >= 0; posed as two abs-free polynomial queries (nlsat)"""
        at, bt = self._l(a), self._l(b)
        eps = z3.RealVal(repr(tol)) * (1 + bt)
        p1, p2 = at - bt <= eps, bt - at <= eps
        return Claim(z3.And(p1, p2), z3.Or(at - bt > 1000 * eps, bt - at > 1000 * eps), parts=[p1, p2], nonlinear=True)

    def le(self, a, b):
        return self.ge(b, a)

    def gt(self, a, b):
        return Claim(self._l(a) > self._l(b))

    def lt(self, a, b):
        return Claim(self._l(a) < self._l(b))

    def abs(self, a):
        return abs(a)

    def is_none(self, a):
        return a is None

    def not_none(self, a):
        return a is not None

    def true(self, c):
        if isinstance(c, SymBool):
            return Claim(c.t)
        if isinstance(c, Claim):
            return c
        return bool(c)

    def truth(self, x):
        if isinstance(x, SymBool):
            return x
        if isinstance(x, (SymReal, SymInt)):
            return SymBool(x.t != 0)
        return bool(x)

    def same(self, a, b):
        return a == b

    def text(self, parts):
        from symx.symstr import SymStr
        chars = []
        for p in parts:
            if isinstance(p, SymInt):
                chars.append(p)
            elif isinstance(p, int):
                chars.append(chr(p))
            else:
                chars.extend(p)
        return SymStr.mk(chars)

    def isdigit(self, c):
        from symx.symstr import SymStr
        if isinstance(c, SymStr):
            t = c.c[0].t
            return len(c) == 1 and SymBool(z3.And(t >= 48, t <= 57))
        return len(c) == 1 and c in '0123456789'

    def nonfinite_seen(self, reset=False):
        r = bool(getattr(core.ENG, '_nonfinite_flag', False))
        if reset and core.ENG is not None:
            core.ENG._nonfinite_flag = False
        return r

    def digit(self, c):
        from symx.symstr import SymStr
        if isinstance(c, SymStr):
            return SymReal(z3.ToReal(c.c[0].t - 48))
        return int(c)

    def _b(self, c):
        if isinstance(c, Claim):
            return c.t
        if isinstance(c, SymBool):
            return c.t
        return z3.BoolVal(bool(c))

    def implies(self, p, q):
        return Claim(z3.Implies(self._b(p), self._b(q)))

    def and_(self, *cs):
        return Claim(z3.And(*[self._b(c) for c in cs]))

    def or_(self, *cs):
        return Claim(z3.Or(*[self._b(c) for c in cs]))

    def not_(self, c):
        return Claim(z3.Not(self._b(c)))

    def raises(self, fn):
        try:
            fn()
        except Exception:
            return True
        return False

    def log10(self, x):
        if not core.is_sym(x):
            return ConcreteOps().log10(x)
        return SymReal(core.uf('log10', self._l(x)))

    def ln(self, x):
        if not core.is_sym(x):
            return ConcreteOps().ln(x)
        return SymReal(core.uf('log', self._l(x)))

    def exp(self, x):
        if not core.is_sym(x):
            return ConcreteOps().exp(x)
        return SymReal(core.uf('exp', self._l(x)))

    def pow(self, b, e):
        if not core.is_sym(b) and not core.is_sym(e):
            return ConcreteOps().pow(b, e)
        return SymReal(core.real_pow(self._l(b), self._l(e) if core.is_sym(e) else e))

    def sqrt(self, x):
        if not core.is_sym(x):
            return ConcreteOps().sqrt(x)
        return SymReal(core.uf('pow', self._l(x), z3.RealVal('1/2')))

    def sin(self, x):
        if not core.is_sym(x):
            return ConcreteOps().sin(x)
        return SymReal(core.uf('sin', self._l(x)))

    def cos(self, x):
        if not core.is_sym(x):
            return ConcreteOps().cos(x)
        return SymReal(core.uf('cos', self._l(x)))

    def tan(self, x):
        if not core.is_sym(x):
            return ConcreteOps().tan(x)
        return SymReal(core.uf('tan', self._l(x)))

    def ite(self, c, a, b):
        return SymReal(z3.If(self._b(c), self._l(a), self._l(b)))

    def dec(self, x):
        return core.SymDec(self._l(x))

    def arr(self, items):
        return core.symarr(list(items))

    def veq(self, a, b):
        """value equality where a value is either a truth value or a number (a bool never equals a number here)"""
        ab = isinstance(a, (bool, SymBool)) or type(a).__name__ == 'bool_'
        bb = isinstance(b, (bool, SymBool)) or type(b).__name__ == 'bool_'
        if ab != bb:
            return False
        if ab:
            return Claim(core.lift_bool(a) == core.lift_bool(b))
        return self.eq(a, b)

    def lit(self, x):
        """numeric literal text for x: a sentinel numeral that the module-local float/int stubs map back to the proxy"""
        if not core.is_sym(x):
            return str(int(x)) if float(x) == int(x) else repr(float(x))
        from symx import stubs
        for text, p in stubs.SENTINELS.items():
            if p is x:
                return text
        text = str(9001 + len(stubs.SENTINELS))
        stubs.sentinel(text, x)
        return text


# ---------------------------------------------------------------------------

class Scenario:
    """
    key      stable identifier (used for known-finding matching)
    src      python source defining run(v, O) -> [(label, claim)]
    inputs   {name: ('real'|'int'|'bool', precondition-source or None)}
    pre      list of python expressions over v.<name> evaluated in both modes (symbolic via proxies)
    consts   {name: python value} pasted into v unchanged
    """

    def __init__(self, key, src, inputs, pre=(), consts=None, what='', preamble='', axioms=None, samples=3, canary=False, sym_consts=None):
        self.key = key
        self.src = textwrap.dedent(src)
        self.inputs = dict(inputs)
        self.pre = list(pre)
        self.consts = dict(consts or {})
        self.what = what
        self.preamble = textwrap.dedent(preamble)
        self.axioms = axioms
        self.samples = samples
        self.canary = canary
        self.product_rule = False
        self.dyn_consts = {}        # name -> callable(values) giving the concrete constant for a replay / concrete sample
        self.concretise = None      # z3 constraints fixing generalised constants (symbolic tables) to their actual values
        self.sym_consts = dict(sym_consts or {})

    def compile(self):
        ns = {}
        exec(self.preamble + "\n" + self.src, ns)
        return ns['run']


def _to_py(val, kind):
    if kind in ('int', 'char'):
        return int(val)
    if kind == 'count':
        return max(1, int(round(float(val))))
    if kind == 'count0':
        return max(0, int(round(float(val))))
    if kind == 'bool':
        return bool(val)
    if isinstance(val, fractions.Fraction):
        return float(val)
    return float(val)


def replay_script(scen, values, label):
    """stand-alone script: exit 1 iff the *reported* claim fails (or the reported exception type is raised)"""
    vals = ", ".join(f"{k}={v!r}" for k, v in values.items())
    cc = dict(scen.consts)
    for name, fn in scen.dyn_consts.items():
        cc[name] = fn(values)
    consts = ", ".join(f"{k}={v!r}" for k, v in cc.items())
    allv = ", ".join(x for x in (vals, consts) if x)
    return (
        "import sys, warnings\nwarnings.filterwarnings('ignore')\n"
        + CONCRETE_OPS_SRC + "\n" + scen.preamble + "\n" + scen.src + "\n"
        + f"v = V({allv})\nO = ConcreteOps()\nLABEL = {label!r}\n"
        + "bad = []\n"
        + "try:\n    claims = run(v, O)\nexcept Exception as e:\n"
        + "    print('scenario raised', type(e).__name__, e)\n"
        + "    sys.exit(1 if LABEL == 'unexpected ' + type(e).__name__ else 0)\n"
        + "for label, c in claims:\n    if not c: bad.append(label)\n"
        + f"print('inputs:', {allv!r})\n"
        + "print('failing claims:', bad, '; reported claim:', LABEL)\n"
        + "sys.exit(1 if LABEL in bad else 0)\n"
    )


def run_scenarios(scens, patches_cm, timeout_ms=10000, max_paths=4000, wall_s=120, seed=0, div_zero='assume', background=None):
    """Prove every claim of every scenario on every path.  Returns the task-result dict."""
    out = {'shapes': 0, 'paths': 0, 'obligations': 0, 'discharged': 0, 'raised_paths': 0, 'nontrivial': 0,
           'findings': [], 'inconclusive': [], 'samples': [], 'canaries': 0, 'canaries_fired': 0}
    stats = core.Stats()
    rnd = random.Random(seed)
    import os
    div_zero = os.environ.get('VERIF_DIV_ZERO', div_zero)      # experiments only: 'fork' lets a division by a possibly-zero term raise instead of assuming it away
    for scen in scens:
        _t0 = time.time()
        out['shapes'] += 1
        from symx import stubs as _stubs
        _stubs.clear_sentinels()
        run = scen.compile()
        eng = Engine(timeout_ms=timeout_ms, max_paths=max_paths, wall_s=wall_s, div_zero=div_zero)
        vars_ = {}
        for name, kind in scen.inputs.items():
            if kind == 'real':
                vars_[name] = SymReal(z3.Real(name))
            elif kind == 'count':
                vars_[name] = SymReal(z3.Real(name))
                eng.assume_global(z3.Real(name) >= 1)
            elif kind == 'count0':
                vars_[name] = SymReal(z3.Real(name))
                eng.assume_global(z3.Real(name) >= 0)
            elif kind == 'int':
                vars_[name] = SymInt(z3.Int(name))
            elif kind == 'char':
                # one printable ASCII character that is neither a letter nor '_' (see symstr.sym_float)
                c = z3.Int(name)
                vars_[name] = SymInt(c)
                eng.assume_global(c >= 32, c <= 126, z3.Not(z3.And(c >= 65, c <= 90)), z3.Not(z3.And(c >= 97, c <= 122)), c != 95)
            else:
                vars_[name] = SymBool(z3.Bool(name))
        v = V(**vars_, **{**scen.consts, **scen.sym_consts})
        pre_terms = []
        for p in scen.pre:
            r = eval(p, {'v': v, 'z3': z3})
            pre_terms.append(r.t if isinstance(r, SymBool) else r if z3.is_expr(r) else z3.BoolVal(bool(r)))
        eng.assume_global(*pre_terms)
        if background:
            eng.assume_global(*background(v))
        O = SymOps()
        nob0 = out['obligations']
        reported = set()
        try:
            with patches_cm():
                for pc, res, exc in eng.explore(lambda: run(v, O)):
                    out['paths'] += 1
                    if exc is not None:
                        out['raised_paths'] += 1
                        out['obligations'] += 1
                        r, m = eng.satisfiable(pc)
                        if r == 'sat':
                            lab = f"unexpected {type(exc).__name__}"
                            _report(out, scen, vars_, m, lab, reported, f"{type(exc).__name__}: {str(exc)[:200]}")
                            out['discharged'] += 1
                        else:
                            out['inconclusive'].append(f"{scen.key}: exception path with pc {r}")
                        continue
                    ax0 = scen.axioms(v) if scen.axioms else []
                    for label, claim in res:
                        out['obligations'] += 1
                        if type(claim).__name__ == 'bool_':
                            claim = bool(claim)
                        if claim is True:
                            out['discharged'] += 1
                            stats.syntactic += 1
                            continue
                        if claim is False:
                            r, m = eng.satisfiable(pc)
                            if r == 'sat':
                                _report(out, scen, vars_, m, label, reported, 'claim is false on this path')
                                out['discharged'] += 1
                            else:
                                out['inconclusive'].append(f"{scen.key}/{label}: false claim, pc {r}")
                            continue
                        if isinstance(claim, SymBool):
                            claim = Claim(claim.t)
                        ax = list(ax0) + axioms.instances(list(pc) + [claim.t] + list(ax0), product_rule=scen.product_rule)
                        if claim.parts:
                            r, m = 'unsat', None
                            for part in claim.parts:
                                r1, m1 = eng.prove(pc, part, extra=ax, nonlinear=claim.nonlinear)
                                if r1 != 'unsat':
                                    r, m = r1, m1
                                    break
                        else:
                            r, m = eng.prove(pc, claim.t, extra=ax, nonlinear=claim.nonlinear)
                        if r == 'unsat':
                            out['discharged'] += 1
                        elif r == 'sat' and scen.concretise and eng.satisfiable(pc, extra=list(ax) + list(scen.concretise) + [z3.Not(claim.t)])[0] == 'unsat':
                            # holds for the actual table values, fails only for other values of the generalised constants:
                            # not observable, recorded as latent and not reported
                            out['discharged'] += 1
                            out.setdefault('latent', []).append(f"{scen.key}/{label}")
                        elif r == 'sat':
                            if scen.concretise:
                                ax = list(ax) + list(scen.concretise)
                            cnts = [vars_[n].t for n, k in scen.inputs.items() if k == 'count']
                            dom = [z3.Or(*[c == i for i in range(1, 9)]) for c in cnts]
                            dom += [z3.Or(*[vars_[n].t == i for i in range(0, 9)]) for n, k in scen.inputs.items() if k == 'count0']
                            tries = []
                            # prefer small integral inputs: they replay without float artefacts (complex powers, overflow)
                            small = [z3.Or(*[vars_[n].t == i for i in (2, 3, 1, 4, 0, 5)]) for n, k in scen.inputs.items() if k == 'real']
                            if claim.robust_neg is not None:
                                if small:
                                    tries.append(dom + small + [claim.robust_neg])
                                tries.append(dom + [claim.robust_neg])
                                tries.append([claim.robust_neg])
                            if small:
                                tries.append(dom + small + [z3.Not(claim.t)])
                            if dom:
                                tries.append(dom + [z3.Not(claim.t)])
                            for extra_c in tries:
                                r2, m2 = eng.satisfiable(pc, extra=list(ax) + extra_c)
                                if r2 == 'sat':
                                    m = m2
                                    break
                            _report(out, scen, vars_, m, label, reported, 'solver counterexample')
                            out['discharged'] += 1
                        else:
                            out['inconclusive'].append(f"{scen.key}/{label}: solver answered unknown")
        except core.BudgetExceeded as e:
            out['inconclusive'].append(f"{scen.key}: budget exceeded ({e})")
        except core.ProxyLeak as e:
            out['inconclusive'].append(f"{scen.key}: proxy leak: {e}")
        stats.add(eng.stats)
        if scen.canary:
            out['canaries'] += 1
            out['canaries_fired'] += 1 if reported else 0
            continue
        if out['obligations'] > nob0:
            out['nontrivial'] += 1
        # translator validation on concrete samples (unpatched library, same scenario source)
        if not reported:
            for _ in range(scen.samples):
                vals = _sample(scen, rnd)
                if vals is None:
                    continue
                cc = dict(scen.consts)
                try:
                    for name, fn in scen.dyn_consts.items():
                        cc[name] = fn(vals)
                    claims = run(V(**vals, **cc), ConcreteOps())
                    bad = [l for l, c in claims if not c]
                except (ZeroDivisionError, OverflowError):
                    continue        # sample outside the assumed domain (divisor != 0, finite results)
                except Exception as e:  # proved not to raise, yet raises concretely
                    if 'complex' in str(e) or 'math domain' in str(e):
                        continue    # negative base with fractional exponent: outside the real-valued claim
                    bad = [f"raised {type(e).__name__}: {e}"]
                if bad:
                    out['inconclusive'].append(
                        f"{scen.key}: translator validation failed: solver proved the claims but concrete run {vals} violates {bad}")
        if os.environ.get('VERIF_TIMING'):
            print(f'TIMING {time.time() - _t0:7.2f}s {scen.key}', flush=True)
        if len(out['samples']) < 3:
            out['samples'].append({'scenario': scen.key, 'inputs': scen.inputs, 'pre': scen.pre,
                                   'consts': {k: repr(v)[:60] for k, v in scen.consts.items()}})
    out['stats'] = stats.as_dict()
    return out


def _report(out, scen, vars_, model, label, reported, why):
    key = f"{scen.key}/{label}"
    if key in reported:
        return
    reported.add(key)
    if scen.canary:
        return
    values = {}
    for name, proxy in vars_.items():
        values[name] = _to_py(core.model_value(model, proxy.t), scen.inputs[name])
    out['findings'].append({
        'key': key, 'what': f"{scen.what or scen.key}: {label} ({why}) at {values}",
        'replay': replay_script(scen, values, label), 'model': values,
    })


CHAR_POOL = '0123456789' + '0123456789' + '..  (())**//++--<<>>==!!&&||,,' + '#$%:;?@[]^{}~"\'`\\'


def _sample(scen, rnd, tries=60):
    pool = [0.5, 1.0, 2.0, 3.0, 0.25, 7.0, 1.5, 12.0, 0.125, 4.0]
    for _ in range(tries):
        vals = {}
        for name, kind in scen.inputs.items():
            if kind == 'real':
                x = rnd.choice(pool)
                if rnd.random() < 0.4:
                    x = -x
                vals[name] = x
            elif kind == 'int':
                vals[name] = rnd.randint(-3, 6)
            elif kind == 'char':
                vals[name] = ord(rnd.choice(CHAR_POOL))
            elif kind == 'count':
                vals[name] = rnd.randint(1, 5)
            elif kind == 'count0':
                vals[name] = rnd.choice([0, 0, 1, 2, 3])
            else:
                vals[name] = rnd.random() < 0.5
        v = V(**vals, **scen.consts)
        try:
            if all(bool(eval(p, {'v': v, 'z3': z3})) for p in scen.pre):
                return vals
        except Exception:
            continue
    return None
