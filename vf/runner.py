"""Check driver: runs one property's harness tasks in parallel, replays
counterexamples against the unpatched library in a fresh interpreter, matches
known findings, writes evidence, sets the exit code.

exit 0  every obligation discharged, vacuity witnesses fired, only listed known findings seen
exit 1  a counterexample that replays and is not listed   (VIOLATION line)
exit 3  harness error / inconclusive (never reported as success, never as violation)
"""
import argparse
import hashlib
import importlib
import inspect
import json
import multiprocessing as mp
import os
import subprocess
import sys
import time
import traceback

ROOT = os.path.dirname(os.path.dirname(os.path.abspath(__file__)))
REPLAY_PY = '/venv/bin/python'
HARNESS_ERROR = 3


def _worker(args):
    modname, task = args
    t0 = time.time()
    try:
        mod = importlib.import_module(modname)
        res = mod.run_task(task)
        res.setdefault('task', task.get('id', str(task)))
        res['wall_s'] = time.time() - t0
        return res
    except BaseException as e:  # noqa - report everything as harness error
        return {'task': task.get('id', str(task)), 'error': f"{type(e).__name__}: {e}",
                'trace': traceback.format_exc(limit=12), 'wall_s': time.time() - t0}


def sha1_of(qualname):
    """SHA-1 of the current source of a library object (shows the encoding is regenerated)."""
    try:
        modname, _, attr = qualname.partition(':')
        obj = importlib.import_module(modname)
        for part in attr.split('.') if attr else []:
            obj = getattr(obj, part)
        src = inspect.getsource(obj)
        return hashlib.sha1(src.encode()).hexdigest()[:12]
    except Exception as e:  # pragma: no cover
        return f"unavailable({type(e).__name__})"


def load_known():
    p = os.path.join(ROOT, 'known_findings.json')
    if not os.path.exists(p):
        return {'findings': [], 'fixed': []}
    with open(p) as f:
        return json.load(f)


def run_replay(path, timeout=120):
    """Replay scripts exit 1 when the defect is present, 0 when the library behaves."""
    env = dict(os.environ)
    env.pop('PYTHONPATH', None)
    if os.environ.get('VERIF_SRC'):
        env['PYTHONPATH'] = os.environ['VERIF_SRC']     # development aid (seeded/try_wt.sh): the tree under test is a scratch worktree, not /repo
    try:
        r = subprocess.run([REPLAY_PY, path], capture_output=True, text=True, timeout=timeout, env=env, cwd='/')
    except subprocess.TimeoutExpired:
        return None, 'timeout'
    return r.returncode, (r.stdout + r.stderr)[-2000:]


def main(argv=None):
    ap = argparse.ArgumentParser()
    ap.add_argument('prop')
    ap.add_argument('--tier', default=os.environ.get('VERIF_TIER', 'quick'))
    ap.add_argument('--jobs', type=int, default=int(os.environ.get('VERIF_JOBS', '16')))
    ap.add_argument('--replay', default=None)
    ap.add_argument('--only', default=None, help='substring filter on task ids (development)')
    ap.add_argument('--no-evidence', action='store_true')
    a = ap.parse_args(argv)
    pid = a.prop.upper()
    if a.replay:
        rc, out = run_replay(a.replay)
        print(out)
        print('defect present' if rc == 1 else 'not reproduced' if rc == 0 else f'replay error rc={rc}')
        return 1 if rc == 1 else 0 if rc == 0 else HARNESS_ERROR
    tier = a.tier if a.tier in ('quick', 'thorough') else 'quick'
    seed = int(os.environ.get('VERIF_SEED', '0') or 0)
    modname = f"harness.{pid.lower()}"
    t0 = time.time()
    sys.path.insert(0, ROOT)
    mod = importlib.import_module(modname)
    tasks = mod.tasks(tier, seed)
    if a.only:
        tasks = [t for t in tasks if a.only in t.get('id', '')]
    results = []
    ctx = mp.get_context('spawn')
    jobs = max(1, min(a.jobs, len(tasks)))
    if jobs == 1:
        results = [_worker((modname, t)) for t in tasks]
    else:
        with ctx.Pool(jobs, maxtasksperchild=None) as pool:
            for r in pool.imap_unordered(_worker, [(modname, t) for t in tasks], chunksize=1):
                results.append(r)
    results.sort(key=lambda r: str(r.get('task')))

    # ---- aggregate ----------------------------------------------------------
    agg = {'shapes': 0, 'paths': 0, 'obligations': 0, 'discharged': 0, 'syntactic': 0,
           'queries': 0, 'unsat': 0, 'sat': 0, 'unknown': 0, 'solver_s': 0.0,
           'canaries': 0, 'canaries_fired': 0, 'raised_paths': 0, 'nontrivial': 0, 'assumed_nonzero': 0}
    errors, inconclusive, findings, samples = [], [], [], []
    per_task = []
    for r in results:
        if 'error' in r:
            errors.append(f"task {r['task']}: {r['error']}\n{r.get('trace', '')}")
            continue
        for k in agg:
            if k in r:
                agg[k] += r[k]
        st = r.get('stats') or {}
        for k in ('queries', 'unsat', 'sat', 'unknown', 'solver_s', 'syntactic', 'assumed_nonzero'):
            agg[k] += st.get(k, 0)
        inconclusive += [f"task {r['task']}: {x}" for x in r.get('inconclusive', [])]
        findings += r.get('findings', [])
        samples += r.get('samples', [])[:2]
        per_task.append({'task': r['task'], 'wall_s': round(r['wall_s'], 2), 'shapes': r.get('shapes', 0),
                         'paths': r.get('paths', 0), 'obligations': r.get('obligations', 0)})
    if agg['canaries'] != agg['canaries_fired']:
        errors.append(f"vacuity: only {agg['canaries_fired']} of {agg['canaries']} canaries (deliberately wrong oracles) were refuted")
    if agg['obligations'] == 0 and not errors:
        errors.append('no obligation was generated (vacuous run)')

    # ---- replay counterexamples ---------------------------------------------
    known = load_known()
    rdir = os.path.join(ROOT, 'replays', pid)
    os.makedirs(rdir, exist_ok=True)
    by_key = {}
    for f in findings:
        by_key.setdefault(f['key'], f)
    violations, known_hits, unreproduced = [], [], []
    from concurrent.futures import ThreadPoolExecutor
    jobs_r = []
    for key, f in sorted(by_key.items()):
        h = hashlib.sha1(key.encode()).hexdigest()[:10]
        path = os.path.join(rdir, f"{h}.py")
        with open(path, 'w') as fh:
            fh.write(f"# replay for {pid} key={key}\n# {f.get('what', '')}\n" + f['replay'])
        jobs_r.append((key, f, path))
    with ThreadPoolExecutor(max_workers=max(1, a.jobs)) as tp:
        outs = list(tp.map(lambda j: run_replay(j[2]), jobs_r))
    for (key, f, path), (rc, out) in zip(jobs_r, outs):
        if rc == 1:
            kf = [k for k in known['findings'] if k['property'] == pid and k['key'] == key]
            if kf:
                known_hits.append((key, kf[0]['what']))
            else:
                violations.append((key, f.get('what', ''), path))
        elif rc == 0:
            unreproduced.append((key, path, out))
        else:
            unreproduced.append((key, path, f"replay script failed rc={rc}: {out}"))
    for key, path, out in unreproduced:
        errors.append(f"counterexample did not replay against the unpatched library (encoding/stub bug in the harness): {key} ({path})\n{out[-600:]}")
    # known findings that were expected but did not show up: report, do not fail
    seen_keys = set(by_key)
    stale = [k for k in known['findings'] if k['property'] == pid and k['key'] not in seen_keys and k.get('tier', tier) == tier and not a.only]

    wall = time.time() - t0
    # ---- evidence -------------------------------------------------------------
    encoded = {q: sha1_of(q) for q in getattr(mod, 'ENCODED', [])}
    cov = {
        'explanation': getattr(mod, 'EXPLANATION', '').strip() + ' Bounded symbolic execution of the real code; the z3 verdict per path decides; "held within the stated bounds", not "verified for all inputs".',
        'functions_encoded_sha1': encoded,
        'bounds': getattr(mod, 'BOUNDS', {}).get(tier, getattr(mod, 'BOUNDS', {})),
        'outside_the_claim': getattr(mod, 'OUTSIDE', []),
        'evaluations': max(1, agg['paths']),
        'distinct_nontrivial': agg['nontrivial'] if agg['nontrivial'] else agg['shapes'],
        'rule': getattr(mod, 'RULE', 'one evaluation = one feasible path of the real code through one enumerated shape; a shape is non-trivial when at least one solver-decided obligation was attached to it'),
        'shapes': agg['shapes'], 'paths': agg['paths'], 'paths_raising': agg['raised_paths'],
        'obligations': agg['obligations'], 'discharged': agg['discharged'],
        'discharged_syntactically': agg['syntactic'],
        'queries': {'total': agg['queries'], 'unsat': agg['unsat'], 'sat': agg['sat'], 'unknown': agg['unknown']},
        'solver_s': round(agg['solver_s'], 2),
        'divisions_assumed_nonzero': agg['assumed_nonzero'],
        'canaries': {'planted': agg['canaries'], 'refuted': agg['canaries_fired']},
        'samples': samples[:12] or ['(none)'],
        'exhaustive': bool(getattr(mod, 'EXHAUSTIVE', {}).get(tier, False)) if isinstance(getattr(mod, 'EXHAUSTIVE', {}), dict) else False,
        'tasks': per_task[:64],
        'known_findings_reobserved': [k for k, _ in known_hits],
        'known_findings_not_observed': [k['key'] for k in stale],
        'inconclusive': inconclusive[:20],
        'harness_errors': [e[:400] for e in errors[:10]],
        'checker_cmd': f"./check {pid} --tier {tier}",
        'trusted_base': ['z3 5.1.0', 'symx proxy engine (validated per shape against concrete runs)', 'CPython 3.12', 'numpy object-array dispatch'],
    }
    ev = {
        'property_id': pid, 'tier': tier, 'seed': seed, 'level': 'other', 'coverage': cov,
        'assumptions': list(getattr(mod, 'ASSUMPTIONS', [])),
        'wall_s': round(wall, 2), 'violations': len(violations),
    }
    if not a.no_evidence:
        os.makedirs(os.path.join(ROOT, 'evidence'), exist_ok=True)
        with open(os.path.join(ROOT, 'evidence', f"{pid}.json"), 'w') as fh:
            json.dump(ev, fh, indent=1, default=str)

    # ---- report ---------------------------------------------------------------
    print(f"[{pid}] tier={tier} tasks={len(tasks)} shapes={agg['shapes']} paths={agg['paths']} obligations={agg['obligations']} "
          f"discharged={agg['discharged']} queries={agg['queries']} (unsat {agg['unsat']}, sat {agg['sat']}, unknown {agg['unknown']}) "
          f"solver_s={agg['solver_s']:.1f} canaries={agg['canaries_fired']}/{agg['canaries']} wall={wall:.1f}s")
    for key, what in known_hits:
        print(f"KNOWN-FINDING: property={pid} {what} [{key}]")
    for k in stale:
        print(f"note: listed known finding not observed in this run: {k['key']}")
    for key, what, path in violations:
        print(f"VIOLATION property={pid} replay={path}")
        print(f"  {key}: {what}")
    if violations:
        return 1
    if errors or inconclusive:
        for e in errors[:10]:
            print('HARNESS-ERROR:', e[:1500])
        for e in inconclusive[:10]:
            print('INCONCLUSIVE:', e[:600])
        return HARNESS_ERROR
    if agg['discharged'] != agg['obligations']:
        print(f"HARNESS-ERROR: {agg['obligations'] - agg['discharged']} obligations neither discharged nor reported")
        return HARNESS_ERROR
    return 0


if __name__ == '__main__':
    sys.exit(main())
