"""CrossHair runner (E1): one `crosshair check` process per contract function, in parallel, under a timeout.
Verdicts: 'confirmed' (Confirmed over all paths), 'counterexample' (error: false when calling ...), anything else is inconclusive."""
import ast
import os
import re
import subprocess
import sys
import time
from concurrent.futures import ThreadPoolExecutor

ROOT = os.path.dirname(os.path.dirname(os.path.abspath(__file__)))


def functions(path):
    tree = ast.parse(open(path).read())
    return [(n.name, n.lineno + 1) for n in tree.body if isinstance(n, ast.FunctionDef) and ast.get_docstring(n) and 'post:' in ast.get_docstring(n)]


def check_one(path, lineno, timeout):
    cmd = [sys.executable, '-m', 'crosshair', 'check', '--report_all', '--per_condition_timeout', str(timeout), f"{path}:{lineno}"]
    t = time.time()
    try:
        r = subprocess.run(cmd, capture_output=True, text=True, timeout=timeout * 3 + 30, cwd=ROOT)
        out = r.stdout + r.stderr
    except subprocess.TimeoutExpired:
        return 'timeout', '', time.time() - t
    if 'Confirmed over all paths' in out:
        return 'confirmed', out.strip(), time.time() - t
    m = re.search(r'error: (.*)', out)
    if m:
        return 'counterexample', m.group(1), time.time() - t
    return 'inconclusive', out.strip()[-300:], time.time() - t


def run_file(relpath, timeout=30, jobs=8):
    path = os.path.join(ROOT, relpath)
    fs = functions(path)
    with ThreadPoolExecutor(max_workers=jobs) as tp:
        res = list(tp.map(lambda f: check_one(path, f[1], timeout), fs))
    return [(name, line, v, detail, secs) for (name, line), (v, detail, secs) in zip(fs, res)]


def to_task_result(relpath, modname, prop, timeout=30, jobs=8):
    """task-result dict for vf.runner from a CrossHair contract file.  *_reach functions are vacuity twins that must be refuted."""
    out = {'shapes': 0, 'paths': 0, 'obligations': 0, 'discharged': 0, 'raised_paths': 0, 'nontrivial': 0, 'findings': [], 'inconclusive': [], 'samples': [],
           'canaries': 0, 'canaries_fired': 0, 'stats': {'queries': 0, 'unsat': 0, 'sat': 0, 'unknown': 0, 'solver_s': 0.0, 'syntactic': 0}}
    for name, line, verdict, detail, secs in run_file(relpath, timeout, jobs):
        out['stats']['solver_s'] += secs
        if name.endswith('_reach'):
            out['canaries'] += 1
            if verdict == 'counterexample':
                out['canaries_fired'] += 1
            continue
        out['shapes'] += 1
        out['paths'] += 1
        out['obligations'] += 1
        out['nontrivial'] += 1
        out['stats']['queries'] += 1
        if verdict == 'confirmed':
            out['discharged'] += 1
            out['stats']['unsat'] += 1
            out['samples'].append({'crosshair_contract': name, 'verdict': 'Confirmed over all paths', 'seconds': round(secs, 1)})
        elif verdict == 'counterexample':
            out['discharged'] += 1
            out['stats']['sat'] += 1
            m = re.search(r'when calling (\w+\(.*?\)) \(which returns', detail)
            call = m.group(1) if m else None
            replay = ("import sys\nsys.path.insert(0, %r)\nimport warnings; warnings.filterwarnings('ignore')\nfrom %s import *\n" % (ROOT, modname)
                      + (f"r = {call}\nprint({call!r}, '->', r)\nsys.exit(0 if r else 1)\n" if call else "sys.exit(0)\n"))
            out['findings'].append({'key': f"crosshair/{name}", 'what': f"CrossHair counterexample for contract {name}: {detail}", 'replay': replay, 'model': {'call': call}})
        else:
            out['stats']['unknown'] += 1
            out['inconclusive'].append(f"crosshair/{name}: {verdict} {detail[:200]}")
    return out
