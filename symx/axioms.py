"""Ground axiom instances for the uninterpreted functions (log10, log, exp, pow).

No quantifiers reach the solver: instances are generated for the applications
that actually occur in the terms of a query (two rounds, so that instances
over freshly introduced applications are covered too).
"""
import z3

from . import core


def _apps(terms):
    seen, out, stack = set(), [], list(terms)
    while stack:
        t = stack.pop()
        if t.get_id() in seen:
            continue
        seen.add(t.get_id())
        if z3.is_app(t):
            if t.decl().kind() == z3.Z3_OP_UNINTERPRETED and t.num_args() > 0:
                out.append(t)
            stack.extend(t.children())
    return out


def _f(name, n):
    return core.UF.get((name, n))


def instances(terms, rounds=2, product_rule=False):
    """ground axiom instances relevant for `terms` (z3 expressions)"""
    ax, done = [], set()
    frontier = list(terms)
    for _ in range(rounds):
        new = []
        for a in _apps(frontier):
            if a.get_id() in done:
                continue
            done.add(a.get_id())
            n = a.decl().name()
            if n == 'log10':
                t = a.arg(0)
                new.append(z3.Implies(t > 0, core.uf('pow', z3.RealVal(10), a) == t))
            elif n == 'log':
                t = a.arg(0)
                new.append(z3.Implies(t > 0, core.uf('exp', a) == t))
            elif n == 'exp':
                new.append(core.uf('log', a) == a.arg(0))
                new.append(a > 0)
            elif n == 'pow':
                b, e = a.arg(0), a.arg(1)
                new.append(z3.Implies(b > 0, a > 0))
                if z3.is_rational_value(b) and b.numerator_as_long() == 10 and b.denominator_as_long() == 1:
                    new.append(core.uf('log10', a) == e)
                new.append(z3.Implies(e == 0, a == 1))
                new.append(z3.Implies(e == 1, a == b))
                if product_rule and z3.is_app(b) and b.decl().kind() == z3.Z3_OP_MUL:
                    parts = b.children()
                    prod = None
                    for p in parts:
                        q = core.real_pow(p, e)
                        prod = q if prod is None else prod * q
                    new.append(z3.Implies(z3.And(*[p > 0 for p in parts]), a == prod))
        ax += new
        frontier = new
        if not new:
            break
    return ax
