"""symx core: z3 term proxies and a fork-on-bool path explorer.

The library under test runs unmodified on proxy objects.  Arithmetic builds z3
terms; every use of a symbolic value in control flow (``__bool__``) asks the
solver which branches are feasible under the current path condition and forks
by re-execution (depth-first over a decision log).
"""
import builtins
import fractions
import operator
import time

import numpy as np
import z3

_float = builtins.float
_int = builtins.int


class NonFiniteLift(TypeError):
    """inf/nan met a proxy: a domain error of the concrete computation (log/sqrt of a negative, division by zero in NumPy)"""

    def __init__(self, *a):
        super().__init__(*a)
        if ENG is not None:
            ENG._nonfinite_flag = True      # NumPy turns the TypeError into a generic one: the flag survives


class PathAbort(BaseException):
    """Current path is infeasible or was cut by an assumption."""

    def __init__(self, *a):
        super().__init__(*a)
        if ENG is not None:
            ENG._abort_flag = True


class BudgetExceeded(BaseException):
    """Exploration budget exhausted: result is inconclusive, never a pass."""

    def __init__(self, *a):
        super().__init__(*a)
        if ENG is not None:
            ENG._budget_flag = a[0] if a else 'budget'


class ProxyLeak(BaseException):
    """A proxy reached a place that would concretise it."""

    def __init__(self, *a):
        super().__init__(*a)
        if ENG is not None:
            ENG._leak_flag = a[0] if a else 'leak'


# ---------------------------------------------------------------------------
# Engine
# ---------------------------------------------------------------------------

class Stats:
    def __init__(self):
        self.queries = 0
        self.unsat = 0
        self.sat = 0
        self.unknown = 0
        self.solver_s = 0.0
        self.paths = 0
        self.aborted = 0
        self.branch_queries = 0
        self.syntactic = 0
        self.assumed_nonzero = 0

    def add(self, other):
        for k, v in other.__dict__.items():
            setattr(self, k, getattr(self, k) + v)

    def as_dict(self):
        d = dict(self.__dict__)
        d['solver_s'] = round(d['solver_s'], 3)
        return d


class Engine:
    def __init__(self, timeout_ms=10000, max_paths=20000, wall_s=None, div_zero='assume'):
        self.timeout_ms = timeout_ms
        self.solver = z3.Solver()
        self.solver.set('timeout', timeout_ms)
        self.decisions = []      # [choice, other_pending]
        self.pos = 0
        self.pc = []
        self._pc_index = {}
        self.stats = Stats()
        self.max_paths = max_paths
        self.deadline = (time.time() + wall_s) if wall_s else None
        self.div_zero = div_zero
        self.background = []     # constraints valid on every path (input preconditions)
        self.uncertain = False   # an `unknown` was over-approximated on this path
        self._abort_flag = False
        self._leak_flag = None
        self._budget_flag = None

    # -- solver access ------------------------------------------------------
    def _check(self, *extra):
        t = time.time()
        self.stats.queries += 1
        cons = list(self.background) + list(self.pc) + list(extra)
        full = self.timeout_ms
        # feasibility checks: a quick attempt, then short restarts with another engine / seed (heavy-tailed nonlinear queries);
        # 'unknown' only marks the path uncertain, so the full budget is not spent here
        self.solver.set('timeout', min(2000, full))
        s = str(self.solver.check(*cons))
        self.solver.set('timeout', full)
        if s == 'unknown':
            for kind, seed, ms in (('nlsat', 0, 3000), ('smt', 3, 3000), ('nlsat', 5, 5000)):
                try:
                    s2 = z3.Tactic('qfnra-nlsat').solver() if kind == 'nlsat' else z3.Solver()
                    s2.set('timeout', min(ms, full))
                    if seed:
                        s2.set('random_seed', seed)
                    s2.add(*cons)
                    s = str(s2.check())
                except z3.Z3Exception:
                    s = 'unknown'
                if s != 'unknown':
                    break
        self.stats.solver_s += time.time() - t
        if s == 'unsat':
            self.stats.unsat += 1
        elif s == 'sat':
            self.stats.sat += 1
        else:
            self.stats.unknown += 1
        return s

    def assume_global(self, *conds):
        for c in conds:
            self.background.append(c.t if isinstance(c, SymBool) else c)

    # -- path condition bookkeeping ------------------------------------------
    def _lookup(self, cond):
        for c, d in self._pc_index.get(cond.hash(), ()):  # structural cache
            if c.eq(cond):
                return d
        return None

    def _push(self, cond, d):
        self.pc.append(cond if d else z3.Not(cond))
        self._pc_index.setdefault(cond.hash(), []).append((cond, d))

    def branch(self, cond):
        cond = z3.simplify(cond)
        if z3.is_true(cond):
            return True
        if z3.is_false(cond):
            return False
        neg = False
        if z3.is_not(cond):
            cond, neg = cond.arg(0), True
        known = self._lookup(cond)
        if known is not None:
            return known != neg
        if self.pos < len(self.decisions):
            d = self.decisions[self.pos][0]
        else:
            if self.deadline and time.time() > self.deadline:
                raise BudgetExceeded('wall')
            self.stats.branch_queries += 1
            t = self._check(cond)
            if t == 'unsat':
                t_ok, f_ok = False, True     # pc itself is satisfiable by construction
            else:
                if t == 'unknown':
                    self.uncertain = True
                f = self._check(z3.Not(cond))
                if f == 'unknown':
                    self.uncertain = True
                t_ok, f_ok = True, f != 'unsat'
            if t_ok and f_ok:
                self.decisions.append([True, True])
            elif t_ok:
                self.decisions.append([True, False])
            else:
                self.decisions.append([False, False])
            d = self.decisions[self.pos][0]
        self.pos += 1
        self._push(cond, d)
        return d != neg

    def assume(self, cond):
        """Restrict the current path to `cond` (abort it if impossible)."""
        cond = z3.simplify(cond)
        if z3.is_true(cond):
            return
        if z3.is_false(cond):
            raise PathAbort()
        if self._lookup(cond) is True:
            return
        if self._check(cond) == 'unsat':
            raise PathAbort()
        self._push(cond, True)

    # -- exploration ---------------------------------------------------------
    def explore(self, fn):
        """Run fn() over all feasible paths; yields (pc, result, exception)."""
        global ENG
        while True:
            self.pos = 0
            self.pc = []
            self._pc_index = {}
            self.uncertain = False
            self._abort_flag = False
            self._nonfinite_flag = False
            self._leak_flag = None
            self._budget_flag = None
            prev, ENG = ENG, self
            res = exc = None
            aborted = False
            try:
                res = fn()
            except PathAbort:
                aborted = True
            except (BudgetExceeded, ProxyLeak, KeyboardInterrupt, SystemExit):
                raise
            except Exception as e:   # the library raised on this path
                exc = e
            finally:
                ENG = prev
            # the library has bare `except:` clauses; never let them swallow control exceptions
            if self._budget_flag:
                raise BudgetExceeded(self._budget_flag)
            if self._leak_flag:
                raise ProxyLeak(self._leak_flag)
            if self._abort_flag:
                aborted = True
            if aborted:
                self.stats.aborted += 1
            else:
                self.stats.paths += 1
                if self.stats.paths > self.max_paths:
                    raise BudgetExceeded('paths')
                yield list(self.pc), res, exc
            while self.decisions and not self.decisions[-1][1]:
                self.decisions.pop()
            if not self.decisions:
                return
            self.decisions[-1] = [not self.decisions[-1][0], False]

    # -- property queries ----------------------------------------------------
    def prove(self, pc, claim, extra=(), nonlinear=False):
        """Return ('unsat', None) when pc ∧ extra ⇒ claim, else ('sat', model) / ('unknown', None)."""
        if isinstance(claim, SymBool):
            claim = claim.t
        if isinstance(claim, bool):
            claim = z3.BoolVal(claim)
        neg = z3.simplify(z3.Not(claim))
        if z3.is_false(neg):
            self.stats.syntactic += 1
            return 'unsat', None
        cons = list(self.background) + list(pc) + [c.t if isinstance(c, SymBool) else c for c in extra] + [neg]
        t = time.time()
        self.stats.queries += 1
        r, model = self._portfolio(cons, nonlinear)
        self.stats.solver_s += time.time() - t
        if r == 'unsat':
            self.stats.unsat += 1
        elif r == 'sat':
            self.stats.sat += 1
        else:
            self.stats.unknown += 1
        return r, model

    def _portfolio(self, cons, nonlinear=False):
        """z3's run time on nonlinear real queries is heavy-tailed (the same query took 0.3 s and 49 s in one process):
        short attempts with different engines / random seeds first, the full budget last.  Any definite answer is final."""
        full = self.timeout_ms
        plan = []
        if not nonlinear:
            plan.append(('smt', 0, min(1500, full)))
        plan += [('nlsat', 0, min(3000, full)), ('smt', 1, min(3000, full)), ('nlsat', 7, min(6000, full)), ('smt', 2, min(6000, full)),
                 ('nlsat', 0, full), ('smt', 0, full)]
        r, model = 'unknown', None
        for kind, seed, ms in plan:
            try:
                if kind == 'smt' and seed == 0:
                    s = self.solver
                    s.set('timeout', ms)
                    r = str(s.check(*cons))
                    s.set('timeout', full)
                else:
                    s = z3.Tactic('qfnra-nlsat').solver() if kind == 'nlsat' else z3.Solver()
                    s.set('timeout', ms)
                    if seed:
                        s.set('random_seed', seed)
                    s.add(*cons)
                    r = str(s.check())
                model = s.model() if r == 'sat' else None
            except z3.Z3Exception:
                r = 'unknown'
            if r != 'unknown':
                break
        return r, model

    def satisfiable(self, pc, extra=()):
        cons = list(self.background) + list(pc) + [c.t if isinstance(c, SymBool) else c for c in extra]
        self.stats.queries += 1
        t = time.time()
        r = str(self.solver.check(*cons))
        self.stats.solver_s += time.time() - t
        return r, (self.solver.model() if r == 'sat' else None)


ENG = None


def eng():
    if ENG is None:
        raise RuntimeError('symbolic value used in control flow outside Engine.explore')
    return ENG


# ---------------------------------------------------------------------------
# lifting
# ---------------------------------------------------------------------------

def _ratval(x):
    """Exact decimal the literal denotes (binary rounding is outside the claim)."""
    if isinstance(x, (bool, np.bool_)):
        return z3.RealVal(_int(x))
    if isinstance(x, (_int, np.integer)):
        return z3.RealVal(_int(x))
    if isinstance(x, fractions.Fraction):
        return z3.RealVal(str(x))
    x = _float(x)
    if x != x or x in (_float('inf'), -_float('inf')):
        raise NonFiniteLift('non-finite float cannot be lifted')
    return z3.RealVal(repr(x))


def lift(x):
    """python/numpy/proxy number -> z3 Real term"""
    if isinstance(x, SymReal):
        return x.t
    if isinstance(x, SymInt):
        return z3.ToReal(x.t)
    if isinstance(x, SymBool):
        return z3.If(x.t, z3.RealVal(1), z3.RealVal(0))
    if isinstance(x, (bool, np.bool_, _int, _float, np.integer, np.floating, fractions.Fraction)):
        return _ratval(x)
    raise TypeError(type(x))


def lift_int(x):
    if isinstance(x, SymInt):
        return x.t
    if isinstance(x, SymBool):
        return z3.If(x.t, z3.IntVal(1), z3.IntVal(0))
    if isinstance(x, (bool, np.bool_, _int, np.integer)):
        return z3.IntVal(_int(x))
    raise TypeError(type(x))


def lift_bool(x):
    if isinstance(x, SymBool):
        return x.t
    if isinstance(x, (bool, np.bool_)):
        return z3.BoolVal(bool(x))
    raise TypeError(type(x))


def is_sym(x):
    return isinstance(x, (SymReal, SymInt, SymBool))


UF = {}


def uf(name, *args):
    f = UF.get((name, len(args)))
    if f is None:
        f = UF[(name, len(args))] = z3.Function(name, *([z3.RealSort()] * (len(args) + 1)))
    return f(*args)


def _as_fraction(x):
    if isinstance(x, (bool, np.bool_)):
        return None
    if isinstance(x, (_int, np.integer)):
        return fractions.Fraction(_int(x))
    if isinstance(x, (_float, np.floating)):
        x = _float(x)
        if x != x or x in (_float('inf'), -_float('inf')):
            return None
        # an exponent such as 0.3333333333333333 denotes the small rational it is the nearest double of
        fr = fractions.Fraction(x).limit_denominator(10000)
        if abs(_float(fr) - x) <= 1e-12 * max(1.0, abs(x)):
            return fr
        return fractions.Fraction(repr(x))
    if isinstance(x, fractions.Fraction):
        return x
    return None


def real_pow(bt, e):
    """bt: z3 Real term, e: python number or z3 term -> z3 Real term"""
    fr = None if z3.is_expr(e) else _as_fraction(e)
    if z3.is_expr(e) and z3.is_rational_value(e):
        fr = fractions.Fraction(e.numerator_as_long(), e.denominator_as_long())
    if fr is not None and fr.denominator == 1 and -8 <= fr.numerator <= 8:
        n = fr.numerator
        r = z3.RealVal(1)
        for _ in range(abs(n)):
            r = r * bt
        return r if n >= 0 else 1 / r
    et = e if z3.is_expr(e) else z3.RealVal(str(fr)) if fr is not None else lift(e)
    return uf('pow', bt, et)


# ---------------------------------------------------------------------------
# proxies
# ---------------------------------------------------------------------------

class SymBool:
    __array_priority__ = 1000

    def __init__(self, t):
        self.t = t

    def __bool__(self):
        return eng().branch(self.t)

    def __and__(self, o):
        try:
            return SymBool(z3.And(self.t, lift_bool(o)))
        except TypeError:
            return NotImplemented
    __rand__ = __and__

    def __or__(self, o):
        try:
            return SymBool(z3.Or(self.t, lift_bool(o)))
        except TypeError:
            return NotImplemented
    __ror__ = __or__

    def __invert__(self):
        return SymBool(z3.Not(self.t))

    def __eq__(self, o):
        if isinstance(o, (SymBool, bool, np.bool_)):
            return SymBool(self.t == lift_bool(o))
        try:
            return SymBool(lift(self) == lift(o))
        except TypeError:
            return NotImplemented

    def __ne__(self, o):
        r = self.__eq__(o)
        return r if r is NotImplemented else SymBool(z3.Not(r.t))

    __hash__ = None

    # arithmetic: a bool is 0/1
    def _num(self):
        return SymInt(lift_int(self))

    def __add__(self, o): return self._num() + o
    def __radd__(self, o): return o + self._num()
    def __sub__(self, o): return self._num() - o
    def __rsub__(self, o): return o - self._num()
    def __mul__(self, o): return self._num() * o
    def __rmul__(self, o): return o * self._num()
    def __truediv__(self, o): return self._num() / o
    def __rtruediv__(self, o): return o / self._num()
    def __pow__(self, o): return self._num() ** o
    def __rpow__(self, o): return o ** self._num()
    def __neg__(self): return -self._num()
    def __lt__(self, o): return self._num() < o
    def __le__(self, o): return self._num() <= o
    def __gt__(self, o): return self._num() > o
    def __ge__(self, o): return self._num() >= o

    def __deepcopy__(self, memo): return self
    def __copy__(self): return self
    def __repr__(self): return f"SymB({self.t})"
    def __format__(self, spec): return f"<{self.t}>"


def _cmp(a, b, f):
    """compare two numeric things; ints stay Int when both are ints"""
    if isinstance(a, (SymInt, SymBool)) or isinstance(b, (SymInt, SymBool)):
        try:
            return SymBool(f(lift_int(a), lift_int(b)))
        except TypeError:
            pass
    return SymBool(f(lift(a), lift(b)))


class SymReal:
    __array_priority__ = 1000

    def __init__(self, t):
        self.t = t

    def _new(self, o, t):
        """result keeps the 'Decimal' flavour when one operand has it"""
        return (SymDec if isinstance(self, SymDec) or isinstance(o, SymDec) else SymReal)(t)

    def _b(self, o, f):
        try:
            return self._new(o, f(self.t, lift(o)))
        except TypeError:
            return NotImplemented

    def _r(self, o, f):
        try:
            return self._new(o, f(lift(o), self.t))
        except TypeError:
            return NotImplemented

    def __add__(s, o): return s._b(o, operator.add)
    def __radd__(s, o): return s._r(o, operator.add)
    def __sub__(s, o): return s._b(o, operator.sub)
    def __rsub__(s, o): return s._r(o, operator.sub)
    def __mul__(s, o): return s._b(o, operator.mul)
    def __rmul__(s, o): return s._r(o, operator.mul)

    def __truediv__(s, o):
        try:
            d = lift(o)
        except TypeError:
            return NotImplemented
        _nonzero(d)
        return s._new(o, s.t / d)

    def __rtruediv__(s, o):
        try:
            n = lift(o)
        except TypeError:
            return NotImplemented
        _nonzero(s.t)
        return s._new(o, n / s.t)

    def __neg__(s): return s._new(None, -s.t)
    def __pos__(s): return s
    def __abs__(s): return s._new(None, z3.If(s.t >= 0, s.t, -s.t))

    def __pow__(s, o):
        try:
            return s._new(o, real_pow(s.t, o.t if isinstance(o, SymReal) else lift(o) if is_sym(o) else o))
        except TypeError:
            return NotImplemented

    def __rpow__(s, o):
        try:
            return SymReal(real_pow(lift(o), s.t))
        except TypeError:
            return NotImplemented

    def _c(s, o, f):
        try:
            return SymBool(f(s.t, lift(o)))
        except TypeError:
            return NotImplemented

    def __lt__(s, o): return s._c(o, operator.lt)
    def __le__(s, o): return s._c(o, operator.le)
    def __gt__(s, o): return s._c(o, operator.gt)
    def __ge__(s, o): return s._c(o, operator.ge)

    def __eq__(s, o):
        if o is None or isinstance(o, (str, tuple, list, dict)):
            return False
        return s._c(o, operator.eq)

    def __ne__(s, o):
        if o is None or isinstance(o, (str, tuple, list, dict)):
            return True
        return s._c(o, operator.ne)

    __hash__ = None

    def __bool__(s): return eng().branch(s.t != 0)
    def __deepcopy__(s, memo): return s
    def __copy__(s): return s
    def __format__(s, spec): return f"<{z3.simplify(s.t)}>"
    def __repr__(s): return f"Sym({z3.simplify(s.t)})"
    def __str__(s): return f"Sym({z3.simplify(s.t)})"

    def is_integer(s):
        return False

    # numpy interop ---------------------------------------------------------
    def __array_ufunc__(self, ufunc, method, *inputs, **kw):
        return _array_ufunc(ufunc, method, inputs, kw)

    def __array_function__(self, func, types, args, kwargs):
        return _array_function(func, args, kwargs)

    # explicit leaks ---------------------------------------------------------
    def __float__(self):
        raise ProxyLeak('float() on a symbolic real (unpatched concretisation point)')

    def __int__(self):
        raise ProxyLeak('int() on a symbolic real (unpatched concretisation point)')

    def __index__(self):
        raise ProxyLeak('index() on a symbolic real')

    def __round__(self, n=None):
        if n:
            raise ProxyLeak('round(x, n) on a symbolic real')
        return _round_half_even(self)

    def __floor__(self):
        return SymReal(z3.ToReal(z3.ToInt(self.t)))

    def __ceil__(self):
        fl = z3.ToInt(self.t)
        return SymReal(z3.ToReal(z3.If(z3.ToReal(fl) == self.t, fl, fl + 1)))

    def rint(self):
        return _round_half_even(self)

    # numpy's object-dtype loops call these methods element-wise
    def sin(self): return SymReal(uf('sin', self.t))
    def cos(self): return SymReal(uf('cos', self.t))
    def tan(self): return SymReal(uf('tan', self.t))
    def arcsin(self): return SymReal(uf('arcsin', self.t))
    def arccos(self): return SymReal(uf('arccos', self.t))
    def arctan(self): return SymReal(uf('arctan', self.t))
    def log(self): return SymReal(uf('log', self.t))
    def log10(self): return SymReal(uf('log10', self.t))
    def exp(self): return SymReal(uf('exp', self.t))
    def sqrt(self): return SymReal(uf('pow', self.t, z3.RealVal('1/2')))
    def cbrt(self): return SymReal(uf('pow', self.t, z3.RealVal('1/3')))
    def conjugate(self): return self


class SymDec(SymReal):
    """a symbolic real that the library must treat as decimal.Decimal (see stubs.DecimalStub)"""


def _round_half_even(x):
    h = x.t + z3.RealVal('1/2')
    fl = z3.ToInt(h)
    return SymReal(z3.ToReal(z3.If(z3.And(z3.ToReal(fl) == h, fl % 2 == 1), fl - 1, fl)))


def _nonzero(d):
    e = eng() if ENG is not None else None
    if e is None:
        return
    try:
        sd = z3.simplify(d) if z3.is_expr(d) else d
        if (z3.is_rational_value(sd) or z3.is_int_value(sd) or z3.is_algebraic_value(sd)) and not z3.is_false(z3.simplify(sd != 0)):
            return          # a non-zero numeral: nothing to fork on or to assume
    except z3.Z3Exception:
        pass
    if e.div_zero == 'fork':
        if not e.branch(d != 0):
            raise ZeroDivisionError('float division by zero')
    else:
        e.stats.assumed_nonzero += 1
        e.assume(d != 0)


class SymInt:
    __array_priority__ = 1000

    def __init__(self, t):
        self.t = t

    def _b(s, o, f):
        if isinstance(o, (SymReal, _float, np.floating)):
            return f(SymReal(z3.ToReal(s.t)), o)
        try:
            return SymInt(f(s.t, lift_int(o)))
        except TypeError:
            return NotImplemented

    def _r(s, o, f):
        if isinstance(o, (SymReal, _float, np.floating)):
            return f(o, SymReal(z3.ToReal(s.t)))
        try:
            return SymInt(f(lift_int(o), s.t))
        except TypeError:
            return NotImplemented

    def __add__(s, o): return s._b(o, operator.add)
    def __radd__(s, o): return s._r(o, operator.add)
    def __sub__(s, o): return s._b(o, operator.sub)
    def __rsub__(s, o): return s._r(o, operator.sub)
    def __mul__(s, o): return s._b(o, operator.mul)
    def __rmul__(s, o): return s._r(o, operator.mul)
    def __truediv__(s, o): return SymReal(z3.ToReal(s.t)) / o
    def __rtruediv__(s, o): return o / SymReal(z3.ToReal(s.t))

    def __floordiv__(s, o):
        d = lift_int(o)
        _nonzero(d)
        return SymInt(_pyfloordiv(s.t, d))

    def __rfloordiv__(s, o):
        _nonzero(s.t)
        return SymInt(_pyfloordiv(lift_int(o), s.t))

    def __mod__(s, o):
        d = lift_int(o)
        _nonzero(d)
        return SymInt(s.t - d * _pyfloordiv(s.t, d))

    def __rmod__(s, o):
        n = lift_int(o)
        _nonzero(s.t)
        return SymInt(n - s.t * _pyfloordiv(n, s.t))

    def __pow__(s, o):
        if isinstance(o, (_int, np.integer)) and not isinstance(o, bool) and 0 <= o <= 8:
            r = z3.IntVal(1)
            for _ in range(_int(o)):
                r = r * s.t
            return SymInt(r)
        return SymReal(z3.ToReal(s.t)) ** o

    def __rpow__(s, o): return o ** SymReal(z3.ToReal(s.t))
    def __neg__(s): return SymInt(-s.t)
    def __pos__(s): return s
    def __abs__(s): return SymInt(z3.If(s.t >= 0, s.t, -s.t))

    def _c(s, o, f):
        try:
            return _cmp(s, o, f)
        except TypeError:
            return NotImplemented

    def __lt__(s, o): return s._c(o, operator.lt)
    def __le__(s, o): return s._c(o, operator.le)
    def __gt__(s, o): return s._c(o, operator.gt)
    def __ge__(s, o): return s._c(o, operator.ge)

    def __eq__(s, o):
        if o is None or isinstance(o, (str, tuple, list, dict)):
            return False
        return s._c(o, operator.eq)

    def __ne__(s, o):
        if o is None or isinstance(o, (str, tuple, list, dict)):
            return True
        return s._c(o, operator.ne)

    __hash__ = None

    def __bool__(s): return eng().branch(s.t != 0)
    def __deepcopy__(s, memo): return s
    def __copy__(s): return s
    def __format__(s, spec): return f"<{z3.simplify(s.t)}>"
    def __repr__(s): return f"SymI({z3.simplify(s.t)})"
    __str__ = __repr__

    def __array_ufunc__(self, ufunc, method, *inputs, **kw):
        return _array_ufunc(ufunc, method, inputs, kw)

    def __array_function__(self, func, types, args, kwargs):
        return _array_function(func, args, kwargs)

    def __float__(self):
        raise ProxyLeak('float() on a symbolic int (unpatched concretisation point)')

    def __int__(self):
        raise ProxyLeak('int() on a symbolic int (unpatched concretisation point)')

    def __index__(self):
        raise ProxyLeak('index() on a symbolic int')


def _pyfloordiv(a, b):
    # Euclidean: a = b*q + r, 0 <= r < |b|.  floor(a/b): for b>0 equals q; for b<0 equals q if r==0 else q-1... check:
    # a=7,b=-2: Euclid q=-3 (r=1) ; floor(7/-2) = -4 = q-1.  a=-7,b=-2: Euclid q=4 (r=1); floor = 3 = q-1.
    q = a / b
    r = a % b
    return z3.If(z3.Or(b > 0, r == 0), q, q - 1)


# ---------------------------------------------------------------------------
# numpy interception
# ---------------------------------------------------------------------------

_BIN = {'add': operator.add, 'subtract': operator.sub, 'multiply': operator.mul,
        'true_divide': operator.truediv, 'divide': operator.truediv,
        'less': operator.lt, 'less_equal': operator.le, 'greater': operator.gt,
        'greater_equal': operator.ge, 'equal': operator.eq, 'not_equal': operator.ne,
        'floor_divide': operator.floordiv, 'remainder': operator.mod}
_UNARY_UF = ('log10', 'log', 'exp', 'sin', 'cos', 'tan', 'arcsin', 'arccos', 'arctan', 'cbrt')


def _pyify(x):
    return x.item() if isinstance(x, np.generic) else x


def _array_ufunc(ufunc, method, inputs, kw):
    if method != '__call__' or kw.get('out') is not None:
        return NotImplemented
    n = ufunc.__name__
    inputs = [_pyify(x) for x in inputs]
    # element-wise over object arrays
    for i, x in enumerate(inputs):
        if isinstance(x, np.ndarray):
            out = np.empty(x.shape, dtype=object)
            for idx in np.ndindex(x.shape):
                args = list(inputs)
                args[i] = _pyify(x[idx])
                out[idx] = _array_ufunc(ufunc, method, args, kw)
            return out
    if n in _BIN:
        return _BIN[n](inputs[0], inputs[1])
    if n == 'absolute' or n == 'fabs':
        return abs(inputs[0])
    if n == 'negative':
        return -inputs[0]
    if n == 'positive':
        return inputs[0]
    if n == 'sqrt':
        return SymReal(uf('pow', lift(inputs[0]), z3.RealVal('1/2')))
    if n == 'square':
        return inputs[0] * inputs[0]
    if n == 'reciprocal':
        return 1 / inputs[0]
    if n in _UNARY_UF:
        return SymReal(uf(n, lift(inputs[0])))
    if n == 'power' or n == 'float_power':
        a, b = inputs
        return SymReal(real_pow(lift(a), lift(b) if is_sym(b) else b))
    if n == 'maximum':
        a, b = inputs
        return a if a >= b else b
    if n == 'minimum':
        a, b = inputs
        return a if a <= b else b
    if n == 'logical_and':
        a, b = inputs
        return SymBool(z3.And(_truth(a), _truth(b)))
    if n == 'logical_or':
        a, b = inputs
        return SymBool(z3.Or(_truth(a), _truth(b)))
    if n == 'logical_not':
        return SymBool(z3.Not(_truth(inputs[0])))
    if n == 'bitwise_or':
        return inputs[0] | inputs[1]
    if n == 'bitwise_and':
        return inputs[0] & inputs[1]
    if n in ('isnan', 'isinf'):
        return False
    if n == 'isfinite':
        return True
    if n == 'sign':
        x = lift(inputs[0])
        return SymReal(z3.If(x > 0, z3.RealVal(1), z3.If(x < 0, z3.RealVal(-1), z3.RealVal(0))))
    if n in ('floor', 'ceil', 'rint', 'trunc'):
        x = inputs[0]
        if isinstance(x, SymInt):
            return x
        xt = lift(x)
        fl = z3.ToInt(xt)
        if n == 'floor':
            return SymReal(z3.ToReal(fl))
        if n == 'ceil':
            return SymReal(z3.ToReal(z3.If(z3.ToReal(fl) == xt, fl, fl + 1)))
        if n == 'trunc':
            return SymReal(z3.ToReal(z3.If(xt >= 0, fl, z3.If(z3.ToReal(fl) == xt, fl, fl + 1))))
        return _round_half_even(x)
    raise ProxyLeak(f'numpy ufunc {n} on a symbolic value is not modelled')


def _truth(x):
    if isinstance(x, SymBool):
        return x.t
    if isinstance(x, SymReal):
        return x.t != 0
    if isinstance(x, SymInt):
        return x.t != 0
    return z3.BoolVal(bool(x))


def sym_isclose(a, b, rtol=1e-05, atol=1e-08, equal_nan=False):
    at, bt = lift(a), lift(b)
    diff = z3.If(at - bt >= 0, at - bt, bt - at)
    absb = z3.If(bt >= 0, bt, -bt)
    return SymBool(diff <= _ratval(atol) + _ratval(rtol) * absb)


def _array_function(func, args, kwargs):
    n = func.__name__
    if n == 'isclose':
        return sym_isclose(*args, **kwargs)
    if n == 'allclose':
        return sym_isclose(*args, **kwargs)
    if n in ('all', 'any', 'alltrue', 'sometrue'):
        x = args[0]
        return x if isinstance(x, SymBool) else SymBool(_truth(x))
    if n in ('sum', 'max', 'min', 'amax', 'amin', 'mean', 'average', 'prod', 'round', 'around', 'real', 'squeeze', 'copy'):
        if n in ('round', 'around'):
            if (len(args) > 1 and args[1]) or kwargs.get('decimals'):
                raise ProxyLeak('np.round(x, decimals) on a symbolic value')
            return _round_half_even(args[0]) if isinstance(args[0], SymReal) else args[0]
        return args[0]
    if n == 'abs' or n == 'absolute':
        return abs(args[0])
    if n == 'linspace' or n == 'logspace':
        a, b, num = args[0], args[1], args[2] if len(args) > 2 else kwargs.get('num', 50)
        if kwargs.get('endpoint', True) is not True or not isinstance(num, _int):
            raise ProxyLeak('np.linspace variant not modelled')
        pts = [a + (b - a) * fractions.Fraction(i, num - 1) for i in range(num)] if num > 1 else [a]
        if n == 'logspace':
            pts = [SymReal(real_pow(z3.RealVal(10), lift(p))) for p in pts]
        return symarr(pts)
    if n == 'copyto':
        dst, src = args[0], args[1]
        for idx in np.ndindex(dst.shape):
            dst[idx] = src
        return None
    if n == 'isscalar':
        return True
    if n == 'iscomplexobj':
        return False
    if n == 'ndim':
        return 0
    if n == 'shape':
        return ()
    raise ProxyLeak(f'numpy function {n} on a symbolic value is not modelled')


class SymArr(np.ndarray):
    """object ndarray of proxies that survives the library's ``astype(float)``"""

    def astype(self, dtype, *a, **kw):
        if dtype in (float, _float, np.float64):
            return self
        return np.ndarray.astype(self, dtype, *a, **kw)

    def __array_function__(self, func, types, args, kwargs):
        n = func.__name__
        if n in ('allclose', 'isclose'):
            a, b = np.broadcast_arrays(np.asarray(args[0], dtype=object), np.asarray(args[1], dtype=object))
            kw = {k: v for k, v in kwargs.items() if k in ('rtol', 'atol')}
            if len(args) > 2:
                kw['rtol'] = args[2]
            if len(args) > 3:
                kw['atol'] = args[3]
            cl = [sym_isclose(_pyify(x), _pyify(y), **kw) for x, y in zip(a.ravel(), b.ravel())]
            if n == 'allclose':
                return SymBool(z3.And(*[c.t for c in cl])) if cl else True
            out = np.empty(a.shape, dtype=object)
            for i, c in enumerate(cl):
                out.ravel()[i] = c
            return out.view(SymArr)
        r = super().__array_function__(func, types, args, kwargs)
        if isinstance(r, np.ndarray) and r.shape == () and r.dtype == object:
            return r.item()
        return r

    def __array_wrap__(self, out, context=None, return_scalar=False):
        if isinstance(out, np.ndarray) and out.shape == () and out.dtype == object:
            return out.item()
        return np.ndarray.__array_wrap__(self, out, context)


def symarr(items):
    out = np.empty(len(items), dtype=object)
    for i, x in enumerate(items):
        out[i] = x
    return out.view(SymArr)


# ---------------------------------------------------------------------------
# model extraction
# ---------------------------------------------------------------------------

def model_value(model, term, default=0):
    """Evaluate a z3 term in a model and return a python Fraction / int / bool."""
    v = model.eval(term, model_completion=True)
    if z3.is_int_value(v):
        return v.as_long()
    if z3.is_rational_value(v):
        return fractions.Fraction(v.numerator_as_long(), v.denominator_as_long())
    if z3.is_true(v):
        return True
    if z3.is_false(v):
        return False
    if z3.is_algebraic_value(v):
        a = v.approx(30)
        return fractions.Fraction(a.numerator_as_long(), a.denominator_as_long())
    return default


def fresh_real(name):
    return SymReal(z3.Real(name))


def fresh_int(name):
    return SymInt(z3.Int(name))


def fresh_bool(name):
    return SymBool(z3.Bool(name))
