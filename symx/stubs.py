"""Namespace stubs that let proxies pass the library's type gates.

The library writes ``isinstance(x, (float, int))``, ``float(x)``, ``int(x)``,
``self.dtype(x)``.  A harness installs, *in the namespace of the module under
test only*, the classes below under the names ``float`` / ``int`` / ``str``.
Nothing under /repo is edited.  Every installed stub is reported in the
evidence (``assumptions``).
"""
import builtins
import contextlib
import importlib

import numpy as np

from . import core
from .core import SymReal, SymInt, SymBool, SymDec
import decimal as _decimal

_float = builtins.float
_int = builtins.int

SENTINELS = {}          # numeral text -> proxy


def clear_sentinels():
    SENTINELS.clear()


def sentinel(text, proxy):
    SENTINELS[text] = proxy
    return text


def _sentinel_lookup(x):
    if isinstance(x, str):
        return SENTINELS.get(x.strip())
    return None


class _FloatMeta(type):
    def __instancecheck__(cls, obj):
        return isinstance(obj, (_float, SymReal))


class Float(_float, metaclass=_FloatMeta):
    """stand-in for the name ``float`` inside one library module"""

    def __new__(cls, x=0.0):
        if isinstance(x, SymReal):
            return x
        if isinstance(x, SymInt):
            return SymReal(core.z3.ToReal(x.t))
        if isinstance(x, SymBool):
            return SymReal(core.lift(x))
        p = _sentinel_lookup(x)
        if p is not None:
            return Float(p)
        return _float(x)


class _DecMeta(type):
    def __instancecheck__(cls, obj):
        return isinstance(obj, (_decimal.Decimal, SymDec))


class DecimalStub(metaclass=_DecMeta):
    """stand-in for the name ``Decimal`` inside one library module: SymDec proxies count as Decimal,
    Decimal(x) of a proxy/float is a SymDec / real Decimal.  (Real Decimal refuses mixed float arithmetic;
    the model is more permissive, so it can only miss such TypeErrors, never invent a failure.)"""

    def __new__(cls, x=0):
        if isinstance(x, SymDec):
            return x
        if isinstance(x, SymReal):
            return SymDec(x.t)
        if isinstance(x, SymInt):
            return SymDec(core.z3.ToReal(x.t))
        if core.ENG is not None and isinstance(x, (_float, _int)) and not isinstance(x, bool):
            return SymDec(core.lift(x))
        return _decimal.Decimal(x)


class _IntMeta(type):
    def __instancecheck__(cls, obj):
        return isinstance(obj, (_int, SymInt))


class Int(_int, metaclass=_IntMeta):
    """stand-in for the name ``int`` inside one library module"""

    def __new__(cls, x=0, *a):
        if isinstance(x, SymInt):
            return x
        if isinstance(x, SymBool):
            return SymInt(core.lift_int(x))
        if isinstance(x, SymReal):
            # python int() truncates toward zero
            z3 = core.z3
            fl = z3.ToInt(x.t)
            return SymInt(z3.If(x.t >= 0, fl, z3.If(z3.ToReal(fl) == x.t, fl, fl + 1)))
        p = _sentinel_lookup(x)
        if p is not None:
            return Int(p)
        return _int(x, *a)


class _BoolMeta(type):
    def __instancecheck__(cls, obj):
        return isinstance(obj, (builtins.bool, SymBool))


class Bool(metaclass=_BoolMeta):
    def __new__(cls, x=False):
        if isinstance(x, SymBool):
            return x
        if isinstance(x, (SymReal, SymInt)):
            return SymBool(x.t != 0)
        return builtins.bool(x)


@contextlib.contextmanager
def patched(entries):
    """entries: iterable of (module_or_class, attr_name, value).  Restores on exit."""
    saved = []
    missing = object()
    try:
        for target, name, value in entries:
            if isinstance(target, str):
                target = importlib.import_module(target)
            old = target.__dict__.get(name, missing) if hasattr(target, '__dict__') else missing
            saved.append((target, name, old))
            setattr(target, name, value)
        yield
    finally:
        for target, name, old in reversed(saved):
            if old is missing:
                try:
                    delattr(target, name)
                except AttributeError:
                    pass
            else:
                setattr(target, name, old)


def describe(entries):
    out = []
    for target, name, value in entries:
        tn = target if isinstance(target, str) else getattr(target, '__module__', '') + '.' + getattr(target, '__qualname__', str(target))
        out.append(f"{tn}.{name} := symx.{getattr(value, '__name__', type(value).__name__)}")
    return out
