"""Positional symbolic strings: concrete length, every position either a concrete
character or a SymInt code point.  Comparisons return SymBool conjunctions of
character equalities (linear integer constraints); the string collapses to a
plain ``str`` as soon as every position is concrete.  ``re.match``/``re.search``
on a SymStr go through a small backtracking matcher over the ``sre_parse`` tree
of the library's own pattern text (leftmost-greedy semantics hold per path)."""
import builtins
import re as _re
import warnings

import z3

from . import core
from .core import SymInt, SymBool

with warnings.catch_warnings():
    warnings.simplefilter('ignore')
    import sre_parse
    import sre_constants as C

_str = builtins.str


def ch_eq(a, b):
    """equality of two characters (str of length 1 or SymInt code) -> bool | SymBool"""
    if isinstance(a, _str) and isinstance(b, _str):
        return a == b
    at = z3.IntVal(ord(a)) if isinstance(a, _str) else a.t
    bt = z3.IntVal(ord(b)) if isinstance(b, _str) else b.t
    return SymBool(at == bt)


def conj(parts):
    ts = []
    for p in parts:
        if p is True:
            continue
        if p is False:
            return False
        ts.append(p.t)
    if not ts:
        return True
    return SymBool(z3.And(*ts)) if len(ts) > 1 else SymBool(ts[0])


class SymStr:
    def __init__(self, chars):
        self.c = list(chars)

    @staticmethod
    def mk(chars):
        chars = list(chars)
        if all(isinstance(x, _str) for x in chars):
            return ''.join(chars)
        return SymStr(chars)

    @staticmethod
    def fresh(name, n, alphabet_constraint=None):
        chars = [SymInt(z3.Int(f"{name}{i}")) for i in range(n)]
        return SymStr.mk(chars)

    def __len__(self):
        return len(self.c)

    def __iter__(self):
        return iter(self.c)

    def __add__(self, o):
        if isinstance(o, SymStr):
            return SymStr.mk(self.c + o.c)
        if isinstance(o, _str):
            return SymStr.mk(self.c + list(o))
        return NotImplemented

    def __radd__(self, o):
        if isinstance(o, _str):
            return SymStr.mk(list(o) + self.c)
        return NotImplemented

    def __getitem__(self, k):
        r = self.c[k]
        return SymStr.mk(r if isinstance(k, slice) else [r])

    def _eqat(self, off, u):
        uc = u.c if isinstance(u, SymStr) else list(u)
        if off < 0 or off + len(uc) > len(self.c):
            return False
        return conj([ch_eq(self.c[off + i], uc[i]) for i in range(len(uc))])

    def endswith(self, u):
        if isinstance(u, tuple):
            r = [self.endswith(x) for x in u]
            return _disj(r)
        return self._eqat(len(self.c) - len(u), u)

    def startswith(self, u):
        if isinstance(u, tuple):
            return _disj([self.startswith(x) for x in u])
        return self._eqat(0, u)

    def __eq__(self, o):
        if not isinstance(o, (_str, SymStr)):
            return False
        if len(o) != len(self.c):
            return False
        return self._eqat(0, o)

    def __ne__(self, o):
        r = self.__eq__(o)
        return (not r) if isinstance(r, bool) else SymBool(z3.Not(r.t))

    __hash__ = None

    def __contains__(self, sub):
        if isinstance(sub, _str) and len(sub) == 0:
            return True
        n = len(sub)
        r = _disj([self._eqat(i, sub) for i in range(len(self.c) - n + 1)])
        return bool(r)

    def strip(self, chars=None):
        s = self
        while len(s) and bool(_is_space(s.c[0])):
            s = s[1:]
            if isinstance(s, _str):
                return s.strip()
        while len(s) and bool(_is_space(s.c[-1])):
            s = s[:-1]
            if isinstance(s, _str):
                return s.strip()
        return s

    def replace(self, old, new, count=-1):
        """str.replace for a single concrete character `old` (each free position forks on being that character)"""
        if not isinstance(old, _str) or len(old) != 1 or not isinstance(new, _str) or count != -1:
            raise core.ProxyLeak(f'SymStr.replace({old!r}, {new!r}) is not modelled')
        out = []
        for ch in self.c:
            if bool(ch_eq(ch, old)) if not isinstance(ch, _str) else ch == old:
                out.extend(new)
            else:
                out.append(ch)
        return SymStr.mk(out)

    def lstrip(self):
        s = self
        while len(s) and bool(_is_space(s.c[0])):
            s = s[1:]
            if isinstance(s, _str):
                return s.lstrip()
        return s

    def concretize(self, model):
        return ''.join(x if isinstance(x, _str) else chr(core.model_value(model, x.t)) for x in self.c)

    def __repr__(self):
        return 'SymStr(' + ''.join(x if isinstance(x, _str) else '?' for x in self.c) + ')'

    def __str__(self):
        raise core.ProxyLeak('str() of a symbolic string')

    def __format__(self, spec):
        raise core.ProxyLeak('format() of a symbolic string')

    def __deepcopy__(self, memo):
        return self


def _is_space(ch):
    if isinstance(ch, _str):
        return ch.isspace()
    return SymBool(z3.Or(ch.t == 32, z3.And(ch.t >= 9, ch.t <= 13)))


def _disj(parts):
    ts = []
    for p in parts:
        if p is True:
            return True
        if p is False:
            continue
        ts.append(p.t)
    if not ts:
        return False
    return SymBool(z3.Or(*ts)) if len(ts) > 1 else SymBool(ts[0])


# ---------------------------------------------------------------------------
# backtracking regex over SymStr (literals, classes, ranges, categories, greedy
# repeats, groups, alternation, ^ $).  Anything else raises (fail closed).
# ---------------------------------------------------------------------------

def _cat(ch, cat):
    if isinstance(ch, _str):
        if cat is C.CATEGORY_DIGIT:
            return ch.isdigit()
        if cat is C.CATEGORY_SPACE:
            return ch.isspace()
        if cat is C.CATEGORY_WORD:
            return ch.isalnum() or ch == '_'
        if cat is C.CATEGORY_NOT_SPACE:
            return not ch.isspace()
        if cat is C.CATEGORY_NOT_DIGIT:
            return not ch.isdigit()
        raise NotImplementedError(cat)
    t = ch.t
    dig = z3.And(t >= 48, t <= 57)
    spc = z3.Or(t == 32, z3.And(t >= 9, t <= 13))
    wrd = z3.Or(dig, z3.And(t >= 65, t <= 90), z3.And(t >= 97, t <= 122), t == 95)
    m = {C.CATEGORY_DIGIT: dig, C.CATEGORY_SPACE: spc, C.CATEGORY_WORD: wrd,
         C.CATEGORY_NOT_SPACE: z3.Not(spc), C.CATEGORY_NOT_DIGIT: z3.Not(dig)}
    if cat not in m:
        raise NotImplementedError(cat)
    return SymBool(m[cat])


def in_class(ch, items):
    negate = False
    parts = []
    for op, av in items:
        if op is C.NEGATE:
            negate = True
        elif op is C.LITERAL:
            parts.append(ch_eq(ch, chr(av)))
        elif op is C.RANGE:
            if isinstance(ch, _str):
                parts.append(av[0] <= ord(ch) <= av[1])
            else:
                parts.append(SymBool(z3.And(ch.t >= av[0], ch.t <= av[1])))
        elif op is C.CATEGORY:
            parts.append(_cat(ch, av))
        else:
            raise NotImplementedError(op)
    r = _disj(parts)
    if negate:
        return (not r) if isinstance(r, bool) else SymBool(z3.Not(r.t))
    return r


def _m(seq, i, s, pos, groups, k):
    if i == len(seq):
        return k(pos, groups)
    op, av = seq[i]

    def nxt(p, g):
        return _m(seq, i + 1, s, p, g, k)
    if op is C.LITERAL:
        if pos < len(s) and ch_eq(s.c[pos], chr(av)):
            return nxt(pos + 1, groups)
        return None
    if op is C.NOT_LITERAL:
        if pos < len(s) and not ch_eq(s.c[pos], chr(av)):
            return nxt(pos + 1, groups)
        return None
    if op is C.ANY:
        if pos < len(s) and not ch_eq(s.c[pos], '\n'):
            return nxt(pos + 1, groups)
        return None
    if op is C.IN:
        if pos < len(s) and in_class(s.c[pos], av):
            return nxt(pos + 1, groups)
        return None
    if op is C.AT:
        if av is C.AT_BEGINNING:
            return nxt(pos, groups) if pos == 0 else None
        if av is C.AT_END:
            return nxt(pos, groups) if pos == len(s) else None
        raise NotImplementedError(av)
    if op is C.SUBPATTERN:
        gid, _, _, sub = av

        def after(p, g):
            g2 = dict(g)
            if gid is not None:
                g2[gid] = (pos, p)
            return nxt(p, g2)
        return _m(list(sub), 0, s, pos, groups, after)
    if op is C.BRANCH:
        for alt in av[1]:
            r = _m(list(alt), 0, s, pos, groups, nxt)
            if r is not None:
                return r
        return None
    if op is C.MAX_REPEAT:
        lo, hi, sub = av
        sub = list(sub)

        def rep(count, p, g):
            if count < hi:
                r = _m(sub, 0, s, p, g, lambda p2, g2: rep(count + 1, p2, g2) if p2 > p else None)
                if r is not None:
                    return r
            if count >= lo:
                return nxt(p, g)
            return None
        return rep(0, pos, groups)
    raise NotImplementedError(op)


class Match:
    def __init__(self, s, span, groups, ngroups):
        self.s, self.span_, self.g, self.n = s, span, groups, ngroups

    def group(self, n=0):
        if n == 0:
            a, b = self.span_
        elif n in self.g:
            a, b = self.g[n]
        else:
            return None
        return self.s[a:b]

    def groups(self):
        return tuple(self.group(i) for i in range(1, self.n + 1))

    def start(self, n=0):
        return self.span_[0] if n == 0 else self.g[n][0]

    def end(self, n=0):
        return self.span_[1] if n == 0 else self.g[n][1]


def _parse(pat):
    p = sre_parse.parse(pat)
    return list(p), p.state.groups - 1


class ReShim:
    """stand-in for the module name ``re`` inside one library module"""

    def __getattr__(self, n):
        return getattr(_re, n)

    def match(self, pat, s, *a):
        if not isinstance(s, SymStr):
            return _re.match(pat, s, *a)
        try:
            seq, ng = _parse(pat)
            r = _m(seq, 0, s, 0, {}, lambda p, g: (p, g))
        except NotImplementedError as e:
            raise core.ProxyLeak(f'regex construct not modelled for symbolic strings: {e} in {pat!r}')
        return Match(s, (0, r[0]), r[1], ng) if r else None

    def search(self, pat, s, *a):
        if not isinstance(s, SymStr):
            return _re.search(pat, s, *a)
        try:
            seq, ng = _parse(pat)
            for st in range(len(s) + 1):
                r = _m(seq, 0, s, st, {}, lambda p, g: (p, g))
                if r:
                    return Match(s, (st, r[0]), r[1], ng)
        except NotImplementedError as e:
            raise core.ProxyLeak(f'regex construct not modelled for symbolic strings: {e} in {pat!r}')
        return None


def sym_float(s):
    """float() of a symbolic string whose free characters are printable ASCII without letters and '_':
    optional surrounding blanks, digits with at most one '.', at least one digit; anything else is a ValueError
    (no exponent, no inf/nan, no digit grouping can arise without letters/underscore; a sign cannot either in the
    callers modelled here, but is handled).  A free character that could be a letter or '_' is a ProxyLeak."""
    s = s.strip() if isinstance(s, (SymStr, _str)) else s
    if isinstance(s, _str):
        return float(s)
    if len(s) == 0:
        raise ValueError('could not convert string to float')
    letters = [ch for ch in s.c if isinstance(ch, _str) and ch.isalpha()]
    if letters:
        # free characters are never letters, so with concrete letters present the text is a float only as
        # [sign](inf|infinity|nan) (all letters after the first character) or as an exponent form (single letter e/E)
        free = [k for k, ch in enumerate(s.c) if not isinstance(ch, _str)]
        low = [ch.lower() for ch in letters]
        if any(ch not in 'einftya' for ch in low):
            raise ValueError('could not convert string to float')
        if 'e' in low and len(low) > 1:
            raise ValueError('could not convert string to float')
        if 'e' not in low:
            if len(free) > 1 or free[0] >= 1 or ''.join(s.c[1:]).lower() not in ('inf', 'infinity', 'nan'):
                raise ValueError('could not convert string to float')
            if bool(SymBool(z3.Or(s.c[0].t == 43, s.c[0].t == 45))):
                raise core.NonFiniteLift('inf/nan literal')
            raise ValueError('could not convert string to float')
        ie = [k for k, ch in enumerate(s.c) if isinstance(ch, _str) and ch in 'eE'][0]
        if ie == 0 or ie == len(s.c) - 1:
            raise ValueError('could not convert string to float')      # an exponent form needs digits on both sides of the e
        raise core.ProxyLeak('float() of a symbolic string that may be an exponent-form or inf/nan literal is not modelled')
    num = None          # z3 Int term of all digits read
    scale = 0           # digits after the point
    seen_point = False
    ndig = 0
    sign = 1
    txt = []            # the literal as resolved on this path, while every digit read is concrete
    for k, ch in enumerate(s.c):
        if isinstance(ch, _str):
            if ch.isdigit() and ch.isascii():
                d = z3.IntVal(int(ch))
                if txt is not None:
                    txt.append(ch)
            elif ch == '.':
                d = None
            elif ch in '+-' and k == 0:
                sign = -1 if ch == '-' else 1
                continue
            elif ch == '_':
                raise core.ProxyLeak('float() of a symbolic string with a concrete underscore is not modelled')
            else:
                raise ValueError('could not convert string to float')
        else:
            t = ch.t
            if bool(SymBool(z3.Or(z3.And(t >= 65, t <= 90), z3.And(t >= 97, t <= 122), t == 95, t < 32, t > 126))):
                raise core.ProxyLeak('float() of a symbolic string whose free character may be a letter, underscore or non-printable')
            if bool(SymBool(z3.And(t >= 48, t <= 57))):
                d = t - 48
                txt = None
            elif bool(SymBool(t == 46)):
                d = None
            elif k == 0 and bool(SymBool(z3.Or(t == 43, t == 45))):
                sign = SymInt(z3.If(t == 45, -1, 1))
                continue
            else:
                raise ValueError('could not convert string to float')
        if d is None:
            if seen_point:
                raise ValueError('could not convert string to float')
            seen_point = True
            if txt is not None:
                txt.append('.')
        else:
            num = d if num is None else num * 10 + d
            ndig += 1
            if seen_point:
                scale += 1
    if ndig == 0:
        raise ValueError('could not convert string to float')
    if txt is not None and isinstance(sign, int):
        return sign * float(''.join(txt))          # no free digit: the ordinary binary64 literal
    val = core.SymReal(z3.ToReal(num) / z3.RealVal(10 ** scale)) if scale else core.SymReal(z3.ToReal(num))
    return val * sign if sign != 1 or not isinstance(sign, int) else val


class _FloatSMeta(type):
    def __instancecheck__(cls, obj):
        return isinstance(obj, (float, core.SymReal))


class FloatS(float, metaclass=_FloatSMeta):
    """stand-in for the name ``float`` in a module that converts (possibly symbolic) text to numbers"""

    def __new__(cls, x=0.0):
        if isinstance(x, SymStr):
            return sym_float(x)
        from . import stubs
        return stubs.Float(x)


class _StrMeta(type):
    def __instancecheck__(cls, o):
        return isinstance(o, (_str, SymStr))


class Str(_str, metaclass=_StrMeta):
    """stand-in for the name ``str`` inside one library module"""

    def __new__(cls, x=''):
        return x if isinstance(x, SymStr) else _str(x)
