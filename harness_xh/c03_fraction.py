"""CrossHair contracts over the real Fraction class (rational exponent arithmetic, C03).
Each function returns True when the identity holds; `post: _` asks CrossHair to show it for every input.
Twins ending in _reach have `post: not _`-style unreachable claims and must be refuted (vacuity witnesses)."""
from typing import Tuple

from scinumtools.units.fraction import Fraction
import scinumtools.units.fraction as _F


def _gcd(a: int, b: int) -> int:
    a, b = abs(a), abs(b)
    while b:
        a, b = b, a % b
    return a


class _NP:
    """np.gcd replaced by a 4-line Euclid so that CrossHair can see through it (listed stub)"""
    gcd = staticmethod(_gcd)


def mul_ff(an: int, ad: int, bn: int, bd: int) -> bool:
    """
    pre: ad != 0 and bd != 0
    post: _
    """
    r = Fraction(an, ad) * Fraction(bn, bd)
    return r.den != 0 and r.num * ad * bd == an * bn * r.den


def div_ff(an: int, ad: int, bn: int, bd: int) -> bool:
    """
    pre: ad != 0 and bd != 0 and bn != 0
    post: _
    """
    r = Fraction(an, ad) / Fraction(bn, bd)
    return r.den != 0 and r.num * ad * bn == an * bd * r.den


def add_ff(an: int, ad: int, bn: int, bd: int) -> bool:
    """
    pre: ad != 0 and bd != 0
    post: _
    """
    r = Fraction(an, ad) + Fraction(bn, bd)
    return r.den != 0 and r.num * ad * bd == (an * bd + bn * ad) * r.den


def sub_ff(an: int, ad: int, bn: int, bd: int) -> bool:
    """
    pre: ad != 0 and bd != 0
    post: _
    """
    r = Fraction(an, ad) - Fraction(bn, bd)
    return r.den != 0 and r.num * ad * bd == (an * bd - bn * ad) * r.den


def mul_tuple_int(an: int, ad: int, bn: int, bd: int, k: int) -> bool:
    """
    pre: ad != 0 and bd != 0
    post: _
    """
    r = Fraction(an, ad) * (bn, bd)
    s = Fraction(an, ad) * k
    return r.num * ad * bd == an * bn * r.den and s.num * ad == an * k * s.den and r.den != 0 and s.den != 0


def div_tuple_int(an: int, ad: int, bn: int, bd: int, k: int) -> bool:
    """
    pre: ad != 0 and bd != 0 and bn != 0 and k != 0
    post: _
    """
    r = Fraction(an, ad) / (bn, bd)
    s = Fraction(an, ad) / k
    return r.num * ad * bn == an * bd * r.den and s.num * ad * k == an * s.den and r.den != 0 and s.den != 0


def add_sub_tuple_int(an: int, ad: int, bn: int, bd: int, k: int) -> bool:
    """
    pre: ad != 0 and bd != 0
    post: _
    """
    r = Fraction(an, ad) + (bn, bd)
    s = Fraction(an, ad) - k
    return r.num * ad * bd == (an * bd + bn * ad) * r.den and s.num * ad == (an - k * ad) * s.den and r.den != 0 and s.den != 0


def neg(an: int, ad: int) -> bool:
    """
    pre: ad != 0
    post: _
    """
    r = -Fraction(an, ad)
    return r.num * ad == -an * r.den and r.den != 0


# ---- reachability twins: identical bodies, impossible claims; CrossHair must produce a counterexample -------
def mul_ff_reach(an: int, ad: int, bn: int, bd: int) -> bool:
    """
    pre: ad != 0 and bd != 0
    post: not _
    """
    r = Fraction(an, ad) * Fraction(bn, bd)
    return r.den != 0 and r.num * ad * bd == an * bn * r.den
